//! vx — dump a Rust source file as a JSON syntax tree with byte spans.
//!
//! Usage: vx <file.rs>            → JSON on stdout
//!
//! The tree is a *subset* serialisation of syn's AST: every construct that is not
//! handled becomes a node {"k":"unsupported","what":..}, so that consumers can refuse
//! (exit 2) instead of silently mis-reading code. All nodes carry "sp":[lo,hi] byte
//! offsets into the file so that consumers copy source text verbatim.

use proc_macro2::Span;
use quote::ToTokens;
use serde_json::{json, Value};
use syn::spanned::Spanned;

struct Ctx {
    line_starts: Vec<usize>,
    src: String,
}

impl Ctx {
    fn new(src: String) -> Self {
        let mut line_starts = vec![0usize];
        for (i, b) in src.bytes().enumerate() {
            if b == b'\n' {
                line_starts.push(i + 1);
            }
        }
        Ctx { line_starts, src }
    }
    fn off(&self, lc: proc_macro2::LineColumn) -> usize {
        // column is in chars; convert to bytes within the line
        let ls = self.line_starts[lc.line - 1];
        let line = &self.src[ls..];
        let mut bytes = 0;
        for (n, ch) in line.chars().enumerate() {
            if n == lc.column {
                break;
            }
            bytes += ch.len_utf8();
        }
        ls + bytes
    }
    fn sp(&self, s: Span) -> Value {
        json!([self.off(s.start()), self.off(s.end())])
    }
    fn spn<T: Spanned>(&self, t: &T) -> Value {
        self.sp(t.span())
    }
}

fn ts<T: ToTokens>(t: &T) -> String {
    t.to_token_stream().to_string()
}

fn path_segs(p: &syn::Path) -> Vec<String> {
    p.segments.iter().map(|s| s.ident.to_string()).collect()
}

fn attrs(c: &Ctx, a: &[syn::Attribute]) -> Value {
    Value::Array(
        a.iter()
            .map(|at| json!({"path": path_segs(at.path()).join("::"), "text": ts(at), "sp": c.spn(at)}))
            .collect(),
    )
}

fn binop(op: &syn::BinOp) -> (&'static str, bool) {
    use syn::BinOp::*;
    match op {
        Add(_) => ("+", false),
        Sub(_) => ("-", false),
        Mul(_) => ("*", false),
        Div(_) => ("/", false),
        Rem(_) => ("%", false),
        And(_) => ("&&", false),
        Or(_) => ("||", false),
        BitXor(_) => ("^", false),
        BitAnd(_) => ("&", false),
        BitOr(_) => ("|", false),
        Shl(_) => ("<<", false),
        Shr(_) => (">>", false),
        Eq(_) => ("==", false),
        Lt(_) => ("<", false),
        Le(_) => ("<=", false),
        Ne(_) => ("!=", false),
        Ge(_) => (">=", false),
        Gt(_) => (">", false),
        AddAssign(_) => ("+", true),
        SubAssign(_) => ("-", true),
        MulAssign(_) => ("*", true),
        DivAssign(_) => ("/", true),
        RemAssign(_) => ("%", true),
        BitXorAssign(_) => ("^", true),
        BitAndAssign(_) => ("&", true),
        BitOrAssign(_) => ("|", true),
        ShlAssign(_) => ("<<", true),
        ShrAssign(_) => (">>", true),
        _ => ("?", false),
    }
}

fn pat(c: &Ctx, p: &syn::Pat) -> Value {
    use syn::Pat::*;
    let sp = c.spn(p);
    match p {
        Ident(i) => json!({"k":"pident","name":i.ident.to_string(),"mut":i.mutability.is_some(),
            "byref":i.by_ref.is_some(),"sub": i.subpat.as_ref().map(|(_,s)| pat(c,s)), "sp":sp}),
        Wild(_) => json!({"k":"pwild","sp":sp}),
        Tuple(t) => json!({"k":"ptuple","elems":t.elems.iter().map(|e| pat(c,e)).collect::<Vec<_>>(),"sp":sp}),
        Struct(s) => json!({"k":"pstruct","path":path_segs(&s.path),
            "fields": s.fields.iter().map(|f| json!({"name": ts(&f.member), "pat": pat(c,&f.pat)})).collect::<Vec<_>>(),
            "rest": s.rest.is_some(), "sp":sp}),
        TupleStruct(s) => json!({"k":"ptstruct","path":path_segs(&s.path),
            "elems": s.elems.iter().map(|e| pat(c,e)).collect::<Vec<_>>(),"sp":sp}),
        Path(pp) => json!({"k":"ppath","path":path_segs(&pp.path),"sp":sp}),
        Lit(l) => json!({"k":"plit","e":expr(c,&syn::Expr::Lit(l.clone())),"sp":sp}),
        Or(o) => json!({"k":"por","cases":o.cases.iter().map(|e| pat(c,e)).collect::<Vec<_>>(),"sp":sp}),
        Reference(r) => json!({"k":"pref","mut":r.mutability.is_some(),"pat":pat(c,&r.pat),"sp":sp}),
        Type(t) => json!({"k":"ptype","pat":pat(c,&t.pat),"ty":ts(&t.ty),"sp":sp}),
        Paren(pp) => pat(c, &pp.pat),
        Slice(s) => json!({"k":"pslice","elems":s.elems.iter().map(|e| pat(c,e)).collect::<Vec<_>>(),"sp":sp}),
        Range(r) => json!({"k":"prange","text":ts(r),"sp":sp}),
        other => json!({"k":"unsupported","what":format!("pat:{}", ts(other)),"sp":sp}),
    }
}

fn block(c: &Ctx, b: &syn::Block) -> Value {
    json!({"k":"block","stmts": b.stmts.iter().map(|s| stmt(c,s)).collect::<Vec<_>>(), "sp": c.spn(b)})
}

fn macro_node(c: &Ctx, m: &syn::Macro, sp: Value) -> Value {
    let name = path_segs(&m.path).join("::");
    // try to parse the arguments as a comma-separated expression list
    let parser = syn::punctuated::Punctuated::<syn::Expr, syn::Token![,]>::parse_terminated;
    let args = match m.parse_body_with(parser) {
        Ok(p) => Some(p.iter().map(|e| expr(c, e)).collect::<Vec<_>>()),
        Err(_) => None,
    };
    json!({"k":"macro","name":name,"args":args,"raw":m.tokens.to_string(),"sp":sp})
}

fn stmt(c: &Ctx, s: &syn::Stmt) -> Value {
    let sp = c.spn(s);
    match s {
        syn::Stmt::Local(l) => {
            let (init, els) = match &l.init {
                Some(i) => (Some(expr(c, &i.expr)), i.diverge.as_ref().map(|(_, e)| expr(c, e))),
                None => (None, None),
            };
            json!({"k":"let","pat":pat(c,&l.pat),"init":init,"else":els,"attrs":attrs(c,&l.attrs),"sp":sp})
        }
        syn::Stmt::Expr(e, semi) => json!({"k":"expr","e":expr(c,e),"semi":semi.is_some(),"sp":sp}),
        syn::Stmt::Macro(m) => json!({"k":"expr","e":macro_node(c,&m.mac,sp.clone()),"semi":m.semi_token.is_some(),
            "attrs":attrs(c,&m.attrs),"sp":sp}),
        syn::Stmt::Item(it) => json!({"k":"item","item":item(c,it,""),"sp":sp}),
    }
}

fn expr(c: &Ctx, e: &syn::Expr) -> Value {
    use syn::Expr::*;
    let sp = c.spn(e);
    match e {
        Lit(l) => match &l.lit {
            syn::Lit::Int(i) => json!({"k":"lit","ty":"int","v":i.base10_digits(),"suffix":i.suffix(),"sp":sp}),
            syn::Lit::Float(f) => json!({"k":"lit","ty":"float","v":f.base10_digits(),"suffix":f.suffix(),"sp":sp}),
            syn::Lit::Bool(b) => json!({"k":"lit","ty":"bool","v":b.value,"sp":sp}),
            syn::Lit::Str(s) => json!({"k":"lit","ty":"str","v":s.value(),"sp":sp}),
            other => json!({"k":"unsupported","what":format!("lit:{}", ts(other)),"sp":sp}),
        },
        Path(p) => json!({"k":"path","segs":path_segs(&p.path),"text":ts(p),"sp":sp}),
        Binary(b) => {
            let (op, assign) = binop(&b.op);
            if assign {
                json!({"k":"opassign","op":op,"l":expr(c,&b.left),"r":expr(c,&b.right),"sp":sp})
            } else {
                json!({"k":"bin","op":op,"l":expr(c,&b.left),"r":expr(c,&b.right),"sp":sp})
            }
        }
        Unary(u) => {
            let op = match u.op {
                syn::UnOp::Deref(_) => "*",
                syn::UnOp::Not(_) => "!",
                syn::UnOp::Neg(_) => "-",
                _ => "?",
            };
            json!({"k":"un","op":op,"e":expr(c,&u.expr),"sp":sp})
        }
        Reference(r) => json!({"k":"ref","mut":r.mutability.is_some(),"e":expr(c,&r.expr),"sp":sp}),
        Paren(p) => json!({"k":"paren","e":expr(c,&p.expr),"sp":sp}),
        Group(g) => expr(c, &g.expr),
        Field(f) => json!({"k":"field","e":expr(c,&f.base),"name":ts(&f.member),"sp":sp}),
        Index(i) => json!({"k":"index","e":expr(c,&i.expr),"i":expr(c,&i.index),"sp":sp}),
        Call(cl) => json!({"k":"call","f":expr(c,&cl.func),"args":cl.args.iter().map(|a| expr(c,a)).collect::<Vec<_>>(),"sp":sp}),
        MethodCall(m) => json!({"k":"mcall","recv":expr(c,&m.receiver),"m":m.method.to_string(),
            "turbofish": m.turbofish.as_ref().map(|t| ts(t)),
            "args":m.args.iter().map(|a| expr(c,a)).collect::<Vec<_>>(),
            "msp": c.sp(m.method.span()), "sp":sp}),
        If(i) => json!({"k":"if","c":expr(c,&i.cond),"then":block(c,&i.then_branch),
            "else": i.else_branch.as_ref().map(|(_,e)| expr(c,e)),"sp":sp}),
        Let(l) => json!({"k":"letcond","pat":pat(c,&l.pat),"e":expr(c,&l.expr),"sp":sp}),
        Match(m) => json!({"k":"match","e":expr(c,&m.expr),
            "arms": m.arms.iter().map(|a| json!({"pat":pat(c,&a.pat),
                "guard": a.guard.as_ref().map(|(_,g)| expr(c,g)), "body": expr(c,&a.body), "sp": c.spn(a)})).collect::<Vec<_>>(),
            "sp":sp}),
        Block(b) => {
            let mut v = block(c, &b.block);
            v["label"] = json!(b.label.as_ref().map(|l| ts(l)));
            v
        }
        Unsafe(u) => json!({"k":"unsafe","block":block(c,&u.block),"sp":sp}),
        Assign(a) => json!({"k":"assign","l":expr(c,&a.left),"r":expr(c,&a.right),"sp":sp}),
        Struct(s) => json!({"k":"struct","path":path_segs(&s.path),
            "fields": s.fields.iter().map(|f| json!({"name":ts(&f.member),"e":expr(c,&f.expr)})).collect::<Vec<_>>(),
            "rest": s.rest.as_ref().map(|r| expr(c,r)), "sp":sp}),
        Array(a) => json!({"k":"array","elems":a.elems.iter().map(|x| expr(c,x)).collect::<Vec<_>>(),"sp":sp}),
        Repeat(r) => json!({"k":"repeat","e":expr(c,&r.expr),"n":expr(c,&r.len),"sp":sp}),
        Tuple(t) => json!({"k":"tuple","elems":t.elems.iter().map(|x| expr(c,x)).collect::<Vec<_>>(),"sp":sp}),
        Return(r) => json!({"k":"return","e":r.expr.as_ref().map(|x| expr(c,x)),"sp":sp}),
        While(w) => json!({"k":"while","c":expr(c,&w.cond),"body":block(c,&w.body),
            "hsp": json!([c.off(w.span().start()), c.off(w.body.span().start())]), "sp":sp}),
        ForLoop(f) => json!({"k":"for","pat":pat(c,&f.pat),"e":expr(c,&f.expr),"body":block(c,&f.body),
            "hsp": json!([c.off(f.span().start()), c.off(f.body.span().start())]), "sp":sp}),
        Loop(l) => json!({"k":"loop","body":block(c,&l.body),
            "hsp": json!([c.off(l.span().start()), c.off(l.body.span().start())]), "sp":sp}),
        Break(b) => json!({"k":"break","e":b.expr.as_ref().map(|x| expr(c,x)),"sp":sp}),
        Continue(_) => json!({"k":"continue","sp":sp}),
        Macro(m) => macro_node(c, &m.mac, sp),
        Closure(cl) => json!({"k":"closure","params":cl.inputs.iter().map(|p| pat(c,p)).collect::<Vec<_>>(),
            "move": cl.capture.is_some(), "body":expr(c,&cl.body),"sp":sp}),
        Cast(cs) => json!({"k":"cast","e":expr(c,&cs.expr),"ty":ts(&cs.ty),"sp":sp}),
        Range(r) => json!({"k":"range","lo":r.start.as_ref().map(|x| expr(c,x)),"hi":r.end.as_ref().map(|x| expr(c,x)),
            "inclusive": matches!(r.limits, syn::RangeLimits::Closed(_)),"sp":sp}),
        Try(t) => json!({"k":"try","e":expr(c,&t.expr),"sp":sp}),
        Verbatim(v) if v.is_empty() => json!({"k":"empty","sp":sp}),
        other => json!({"k":"unsupported","what":format!("expr:{}", ts(other).chars().take(60).collect::<String>()),"sp":sp}),
    }
}

fn sig(c: &Ctx, s: &syn::Signature) -> Value {
    let params: Vec<Value> = s
        .inputs
        .iter()
        .map(|a| match a {
            syn::FnArg::Receiver(r) => json!({"k":"self","ref":r.reference.is_some(),"mut":r.mutability.is_some(),"sp":c.spn(r)}),
            syn::FnArg::Typed(t) => json!({"k":"param","pat":pat(c,&t.pat),"ty":ts(&t.ty),"sp":c.spn(t)}),
        })
        .collect();
    let ret = match &s.output {
        syn::ReturnType::Default => Value::Null,
        syn::ReturnType::Type(_, t) => json!({"ty": ts(t), "sp": c.spn(t)}),
    };
    json!({"name": s.ident.to_string(), "params": params, "ret": ret,
        "generics": ts(&s.generics), "where": s.generics.where_clause.as_ref().map(|w| ts(w)),
        "unsafe": s.unsafety.is_some(), "sp": c.spn(s)})
}

fn vis_sp(c: &Ctx, v: &syn::Visibility) -> Value {
    match v {
        syn::Visibility::Inherited => Value::Null,
        other => c.spn(other),
    }
}

fn item(c: &Ctx, it: &syn::Item, prefix: &str) -> Value {
    let sp = c.spn(it);
    match it {
        syn::Item::Fn(f) => json!({"k":"fn","path":format!("{}{}", prefix, f.sig.ident),
            "sig":sig(c,&f.sig),"body":block(c,&f.block),"vis":vis_sp(c,&f.vis),"attrs":attrs(c,&f.attrs),"sp":sp}),
        syn::Item::Impl(im) => {
            let self_ty = ts(&im.self_ty);
            let self_name = match &*im.self_ty {
                syn::Type::Path(p) => p.path.segments.last().map(|s| s.ident.to_string()).unwrap_or(self_ty.clone()),
                _ => self_ty.clone(),
            };
            let tr = im.trait_.as_ref().map(|(_, p, _)| p.segments.last().map(|s| s.ident.to_string()).unwrap_or_default());
            let items: Vec<Value> = im
                .items
                .iter()
                .map(|ii| match ii {
                    syn::ImplItem::Fn(f) => {
                        let p = match &tr {
                            Some(t) => format!("{}{}::{}@{}", prefix, self_name, f.sig.ident, t),
                            None => format!("{}{}::{}", prefix, self_name, f.sig.ident),
                        };
                        json!({"k":"fn","path":p,"sig":sig(c,&f.sig),"body":block(c,&f.block),
                            "vis":vis_sp(c,&f.vis),"attrs":attrs(c,&f.attrs),"sp":c.spn(f)})
                    }
                    syn::ImplItem::Const(k) => json!({"k":"const","name":k.ident.to_string(),"ty":ts(&k.ty),
                        "e":expr(c,&k.expr),"vis":vis_sp(c,&k.vis),"sp":c.spn(k)}),
                    other => json!({"k":"other","text":ts(other).chars().take(80).collect::<String>(),"sp":c.spn(other)}),
                })
                .collect();
            json!({"k":"impl","self_ty":self_ty,"self_name":self_name,"trait":tr,"generics":ts(&im.generics),
                "items":items,"attrs":attrs(c,&im.attrs),"sp":sp})
        }
        syn::Item::Struct(s) => {
            let fields: Vec<Value> = s
                .fields
                .iter()
                .enumerate()
                .map(|(i, f)| json!({"name": f.ident.as_ref().map(|x| x.to_string()).unwrap_or(i.to_string()),
                    "ty": ts(&f.ty), "vis": vis_sp(c,&f.vis), "attrs": attrs(c,&f.attrs), "sp": c.spn(f)}))
                .collect();
            json!({"k":"struct","name":format!("{}{}", prefix, s.ident),"generics":ts(&s.generics),
                "fields":fields,"vis":vis_sp(c,&s.vis),"attrs":attrs(c,&s.attrs),"sp":sp})
        }
        syn::Item::Enum(e) => json!({"k":"enum","name":format!("{}{}", prefix, e.ident),
            "variants": e.variants.iter().map(|v| json!({"name":v.ident.to_string(),
                "disc": v.discriminant.as_ref().map(|(_,d)| ts(d))})).collect::<Vec<_>>(),
            "vis":vis_sp(c,&e.vis),"attrs":attrs(c,&e.attrs),"sp":sp}),
        syn::Item::Mod(m) => {
            let name = m.ident.to_string();
            let items = m.content.as_ref().map(|(_, its)| {
                its.iter().map(|i| item(c, i, &format!("{}{}::", prefix, name))).collect::<Vec<_>>()
            });
            json!({"k":"mod","name":name,"items":items,"attrs":attrs(c,&m.attrs),"sp":sp})
        }
        syn::Item::Macro(m) => json!({"k":"macro_item","name":path_segs(&m.mac.path).join("::"),
            "ident": m.ident.as_ref().map(|i| i.to_string()), "sp":sp}),
        syn::Item::Use(u) => json!({"k":"use","text":ts(u),"attrs":attrs(c,&u.attrs),"sp":sp}),
        syn::Item::Const(k) => json!({"k":"const","name":k.ident.to_string(),"ty":ts(&k.ty),"e":expr(c,&k.expr),"sp":sp}),
        syn::Item::Trait(t) => json!({"k":"trait","name":t.ident.to_string(),"sp":sp}),
        other => json!({"k":"other","text":ts(other).chars().take(80).collect::<String>(),"sp":sp}),
    }
}

fn main() {
    let args: Vec<String> = std::env::args().collect();
    if args.len() < 2 {
        eprintln!("usage: vx <file.rs>");
        std::process::exit(2);
    }
    let src = std::fs::read_to_string(&args[1]).expect("read");
    let file = match syn::parse_file(&src) {
        Ok(f) => f,
        Err(e) => {
            eprintln!("vx: parse error: {e}");
            std::process::exit(2);
        }
    };
    let c = Ctx::new(src);
    let items: Vec<Value> = file.items.iter().map(|i| item(&c, i, "")).collect();
    println!("{}", serde_json::to_string(&json!({"file": args[1], "items": items})).unwrap());
}
