#!/usr/bin/env python3
"""Regenerate MANIFEST.json from the table below (keeps it valid and in one place)."""
import json, subprocess
PROPS = [json.loads(l) for l in open('/verif/properties.jsonl')]
TECH = "contract-based deductive verification of the real code"
CLAIMED = {
 "C10": ("proof", "E2+E3", "in_sphere_test_exact (macro-expanded by rustc) = sign of the Leibniz determinant for all 15 coordinates in [0,2^52), no overflow, with a code-independent meaning lemma; the eight initial duals positively oriented; every queryable position inside iloc's domain: over the reals for all boxes (E2) and bit-precisely on the real crate for stated windows (Kani, loop-free, all bit patterns)",
         "A-BIG, A-REAL, A-ROUND, E3 input windows; orientation preservation across clips and bit-precise monotonicity not decided (see evidence assumptions)",
         TECH + " — own VC generator over the syn tree of the real source -> SMT (z3/cvc5) + exact ring normaliser; Kani loop-free harnesses on the real crate"),
 "C11": ("proof", "E2", "per back end (ibig, dashu, malachite, num_bigint, rug) the predicate body with that back end's cfg-selected sign-extraction tail satisfies the same postcondition result = sign(det): identical signs on every input",
         "A-BIG: each big-integer crate implements Z and its sign extraction as documented; only the ibig build is executed",
         TECH + " — E2 VC generation per cfg feature + SMT / ring"),
 "C19": ("proof", "E2", "one contract per exported geometry helper, postconditions = the defining equations of the property statement, discharged over the reals for all arguments",
         "A-REAL; Sphere::from_four_points: definedness of its sqrt attempted only",
         TECH + " — E2 VC generation from the real helper bodies + SMT / ring"),
 "C04": ("proof", "E2", "normals: unit, pointing away from the left generator (from the property statement; on the closed half-space, i.e. also for a generator exactly on a wall), face centroid stays in the face plane (inductive invariant over collect/finalize), sign conventions of signed area/volume, walls of the box",
         "A-REAL; closure/divergence identities not claimed (need C01)",
         TECH + " — E2 contracts on build's bisector slice, cuboid, VoronoiFaceIntegral::{init,collect,finalize}, FaceIntegrator::init"),
 "C03": ("proof", "E2", "storage/label half: every unshifted face between two constructed cells is emitted by exactly one side (the lower index), shifted faces by each side, boundary faces always; labels left/right/shift passed through unchanged; the periodic iterator reports None iff the query shift is zero, else the negated shift",
         "geometric half (equal area/centroid, opposite normal from both sides) needs C01 and is not claimed; finalize linking is under C12",
         TECH + " — E2 contracts on sliced predicates/closures of the real source + SMT"),
 "C07": ("proof", "E2", "face bookkeeping under every mask: count(i,j) is 1 iff some side is selected, the selected side is the left cell, a cell is constructed iff no mask or its bit is set (both routes); bitwise equality with the full build argued by a syntactic frame obligation",
         "2-safety part (bitwise same volume/centroid) is a frame argument, not a proved obligation",
         TECH + " — E2 contracts on should_construct_face and the construct-or-default condition + SMT"),
 "C13": ("proof", "E2", "symmetric-variant sentence: the plane is skipped iff it has an unshifted, lower-index, active right neighbour; the two function bodies are token-identical apart from that statement; kept_sym(plane) == should_construct_face(plane) for an active cell; both routes hand the same normalised box to the cells",
         "route equality (integrator vs direct, bitwise) and 'built-in integrals reproduce stored values' are not claimed",
         TECH + " — E2 contract on the sliced match arm + structural comparison"),
 "C18": ("proof", "E1", "cycle algebra of the boundary reconstruction: try_extend equals a functional spec (Err leaves the state untouched, result invariant under rotating the triple), init resets and installs the triangle, every step keeps a single cycle; compute_boundary permutes the removed vertices and ends with chain(edges) = sum of triangle boundaries; theorem: outcomes for re-ordered / rotated inputs are the same cycle; the rebuild block of clip_by_plane (statement slice): new plane appended, kept vertices untouched, exactly one new vertex (edge planes + new plane) per edge of the boundary cycle, cell invariant re-established. Unbounded (loop invariants, recursive lemmas)",
         "never-stuck (the greedy search always finds an attachable triangle) is NOT decided; which vertices are removed and 'same volume' are float code outside E1; SimpleCycle::new, Vertex::from_dual, update_safety_radius and the sub-slice call of compute_boundary are external in Verus (assumed / proved elsewhere); two bounded stand-ins on the real code are reported separately",
         TECH + " — Verus on functions sliced verbatim from /repo/src with spliced contracts, loop invariants and lemmas"),
 "C08": ("proof", "E2+E3", "projection mechanisms: Generator::new keeps id and active coordinates bit for bit and zeroes unused ones for every bit pattern (kani::ensures on the real fn + 2-safety form); vector_is_valid iff unused components exactly zero (kani::ensures, all bit patterns); the anchor/width normalisation prefix of both build routes; Vertex::from_dual's radius in the active subspace; cuboid triples exactly the active axes",
         "A-REAL for the E2 part; E3 cuboid over a stated input window; closed-form 1D / 2D-equals-3D-slab statements not decided (composed float algorithm)",
         TECH + " — Kani function contracts (proof_for_contract) on the real crate + E2 contracts on from_dual, cuboid and the normalisation slices"),
 "C06": ("proof", "E2+E3", "the mechanisms that make periodic faces carry lattice shifts, function by function: the iterator pushes exactly the 3^d shifts (i,j,k)*width on active axes, each once (all widths, all dimensionalities); the map closure reports None iff the query shift is zero, else the negated shift; neighbour = generator + shift; labels passed through to the face; every candidate the iterator hands over (own periodic images included) ends the loop or is clipped; cuboid triples the initial cell along exactly the active axes",
         "A-REAL; E3 cuboid window; equivalence with the 3^d-replicated tessellation, absence of boundary faces and translation invariance not decided (composed float algorithm)",
         TECH + " — E2 contracts on slices of rtree_nn.rs / convex_cell.rs / half_space.rs + Kani harness on cuboid with HalfSpace::new replaced by its verified contract"),
 "C05": ("proof", "E2+E3", "the exact-arithmetic boundary: grid domain for every queryable position incl. generators exactly on walls (reals: all boxes; bits: windows); HalfSpace::{new,clip} under kani::requires/ensures on the real functions (error bound finite positive, answer in {-1,0,+1}, 0 iff within the bound, never NaN) with glam's dot under its own proved contract; over the reals: d = n.p, clip = 0 iff |n.v - d| < errb else the sign, and errb dominates the worst-case rounding error of the offset d; wiring of the exact path in clip_by_plane; right_loc of a wall is the mirror image",
         "A-REAL, A-ROUND, input windows; absence of the three panic sites, termination of build and adequacy of errb as a rounding bound are NOT decided",
         TECH + " — Kani function contracts (proof_for_contract, stub of glam dot by its proved contract) + E2 contracts on iloc / right_loc / the vertex-loop slice"),
 "C16": ("proof", "E2+E3", "the three mechanisms: radius2 of every vertex is the squared distance to the generator in the active subspace (Vertex::from_dual, all inputs); the neighbour loop returns exactly when safety_radius < distance and clips otherwise; ConvexCell::init as a whole (update_safety_radius inlined, its iterator chain unrolled by std's fold semantics): the initial radius is at least twice every vertex distance, all inputs; for an arbitrary vertex count update_safety_radius = 2*sqrt(max radius2) is a bounded Kani stand-in",
         "A-REAL, A-SQRT; update_safety_radius for arbitrary vertex counts is bounded (3/4 vertices) and never counted as proved; the update sites are syntactic facts (never an alarm on their own; the rebuild block of clip_by_plane is under C18's Verus contract); the security-radius theorem itself (farther generators cannot change the cell) is mathematics about convex polytopes and NOT decided",
         TECH + " — E2 contracts on Vertex::from_dual, ConvexCell::init (whole function) and the neighbour-loop slice + syntactic frame obligations; bounded Kani harness on update_safety_radius"),
 "C15": ("proof", "E1+E3", "ordering / index contracts: Vertex::plane_idx (first position or None, terminates; Verus and Kani over all inputs); sort_face_vertices only permutes the index list, keeps the first corner, orders consecutive corners along shared planes, terminates (Verus, loop invariants, verbatim slice); with_faces panics for 1D/2D and not for 3D (Kani on the real fn); neighbour(f) / shift(f) agree with the labels of the face integral of the same plane (E2); face data is Some wherever the unchecked accessors are reachable (syntactic type-state obligations)",
         "sort_face_vertices may panic (postcondition on return); polytope validity (vertex = plane intersection, planarity, convexity, Euler, area) NOT decided; unsafe blocks unverified",
         TECH + " — Verus on verbatim slices with spliced contracts and loop invariants; Kani harnesses on the real crate; syntactic type-state checks"),
 "C12": ("proof", "E1+E2", "Voronoi::finalize verified by Verus for any number of cells and faces (loop invariants; real text, de-sugared by stated mechanical rules): per-cell lists in face order, offsets = prefix sums, array = concatenation in cell order, every cell records its own index; theorem from the contract alone: the slice [offset, offset+count) lists face i iff the cell is its left or unshifted right cell; neighbour closure yields exactly the other side of listed non-boundary non-periodic faces, never the cell itself (E2, all labels)",
         "std pipelines `(0..n).map(|_| vec![]).collect()` and `into_iter().flatten().collect()` are assumed (external_body specs); iterator adapters of neighbour_ids/faces assumed; 'without duplicates' needs a geometric fact (not decided); a bounded replay over masked real builds is reported separately and never counted as proved",
         TECH + " — Verus on Voronoi::finalize / VoronoiCell::finalize / VoronoiFace accessors sliced from the real source + E2 contract on the neighbour_ids closure"),
 "C20": ("proof", "E2", "the mechanisms the uniform-grid search rests on, each as a contract on the real function: Space::new builds ceil(width/max) cells per axis of width width/cdim and cell (i,j,k) spans anchor + (i,j,k)*c_width on every axis (any box shape); get_cid is the row-major index, None iff out of range; add_parts bins a particle into the cell that contains it; Cell::min_distance_squared and min_distance_to_face are lower bounds (pruning is sound)",
         "A-REAL; the ring search itself (BinaryHeap bookkeeping, termination test, get_r_ring) and the bounding-sphere solvers (Welzl minimality, Epos6 containment) are NOT proved: they are covered only by bounded stand-ins on the real code (knn against brute force, spheres contain their points), labelled and never counted as proved; integer wrap-around not modelled",
         TECH + " — E2 contracts on Space::new (prefix + cell literal), Space::get_cid, the add_parts closure, Cell::{min_distance_squared, min_distance_to_face} + bounded replay through verif hooks"),
 "C17": ("proof", "E2", "the mechanisms of the wrapping best-first search, each as a contract on the real code: a generator's key is the squared distance from the shifted query point; an envelope's key is a lower bound for every generator inside it and equals the point key for a one-point envelope; the comparator reverses the distance order (std's max-heap pops the nearest); extend_heap keys each child with its own distance under the given shift; next() expands a parent with the parent's own shift and returns a leaf with the distance and shift it was pushed with; the 3^d root images are pushed once each; the reported shift is None iff zero, else the negated query shift",
         "A-REAL; rstar's tree invariant (envelope containment, children listed once) and BinaryHeap::pop are ASSUMED external contracts; the best-first theorem that follows from them plus the proved mechanisms (non-decreasing order, every image exactly once, self first) is NOT machine-checked: the traversal itself is covered only by a bounded stand-in on the real crate (complete candidate sequences against brute force), labelled and never counted as proved; the non-periodic route is rstar's own iterator (external)",
         TECH + " — E2 contracts on Generator/AABB::wrapping_distance_2, the Ord impl, the extend_heap closure, the arms of next(), RTreeWrappingNearestNeighbourIter::new and the map closure + bounded replay through a verif hook"),
}
NA = {
 "C01": "statement is about the composition (r-tree order -> security radius -> float clipping -> tetrahedral integration) agreeing with a brute-force Voronoi cell 'up to rounding'. No contract language available here can state and discharge that: Verus has no float semantics, the real-idealised VC generator (E2) covers straight-line code only (not the looping, branching builder over a dynamic vertex set), and Kani/CBMC does not finish symbolic execution of ConvexCell::build / from_convex_cell even on one concrete cube (28 min, measured). The mechanisms it rests on are under contract piecewise in C04, C05, C10, C16, C18; the composition itself is not decided by this family of technique",
 "C02": "a global sum of floating-point volumes over all cells equals the box measure up to rounding: a whole-tessellation numerical claim that needs C01 for every cell plus a rounding analysis; no per-function contract expresses it. The axis-normalisation mechanism it names is proved under C08, the initial-cell mechanism under C04/C06",
 "C09": "schedule independence of the rayon parallel loop: Kani has no thread support, Verus would need its own permission types on code that is rayon's (external) and the extraction subset excludes rayon; what holds (closures capture only shared immutable borrows, indexed collect preserves order) is Rust's type system plus rayon's documentation, not an obligation a verifier here can discharge",
 "C14": "exactness of the signed tetrahedral decomposition for every convex cell and 'base triangles lie in the face plane' are theorems of polytope geometry evaluated in floating point and depend on global convexity of the cell (C01); 'for every downstream implementation of the integral traits' quantifies over code that does not exist in /repo. No contract within reach states it",
}
def main():
    hooks = subprocess.run(["git", "-C", "/repo", "log", "--format=%h %s"], capture_output=True, text=True).stdout.splitlines()
    hook_commits = [l.split()[0] for l in hooks if "verif hooks" in l]
    man = {"version": 1, "setup_cmd": "./check setup",
           "hooks": {"guard": "cfg(any(kani, meshless_voro_verif))",
                     "enable": "RUSTFLAGS=\"--cfg meshless_voro_verif\" for the replay crate; `cargo kani` sets cfg(kani)",
                     "baseline_off_cmd": "cd /repo && cargo test --workspace --no-fail-fast --offline",
                     "source_commits": hook_commits, "add_only": True},
           "engines": [
               {"name": "E1", "path": "vlib/verus.py", "kind_free_text": "Verus on functions sliced verbatim from /repo/src, contracts spliced from contracts/*.vspec"},
               {"name": "E2", "path": "vlib/symex.py", "kind_free_text": "own VC generator over the syn tree (vx) of the real source -> SMT-LIB -> z3 / z3-new / cvc5, plus exact ring normaliser"},
               {"name": "E3", "path": "vlib/kani.py", "kind_free_text": "Kani 0.68 harnesses/contracts compiled with the real crate (/verif/kani mounted under cfg(kani))"},
               {"name": "R", "path": "replay/", "kind_free_text": "replay crate: re-executes counterexamples on the real crate built with --cfg meshless_voro_verif"}],
           "checks": [], "not_applicable": [],
           "notes": "exit 0 = all obligations discharged; exit 1 = an obligation refuted (VIOLATION line, replay file); exit 2 = undecided (never an alarm)."}
    for e in man["engines"]:
        e["serves_properties"] = sorted(k for k, v in CLAIMED.items() if e["name"] in v[1] or e["name"] == "R")
    for p in PROPS:
        pid = p["id"]
        if pid in CLAIMED:
            cat, eng, text, note, tech = CLAIMED[pid]
            man["checks"].append({"property_id": pid, "quick_cmd": "./check %s --tier quick" % pid, "thorough_cmd": "./check %s --tier thorough" % pid,
                                  "evidence_file": "/verif/evidence/%s.json" % pid, "replay_cmd_template": "./check --replay {path}", "engine": eng,
                                  "level_claimed": {"category": cat, "text": text, "design_ref": "DESIGN.md §4 " + pid},
                                  "level_note": note, "technique": tech})
        else:
            man["not_applicable"].append({"property_id": pid, "reason": NA.get(pid, "check not built yet (plan in DESIGN.md §4)")})
    json.dump(man, open('/verif/MANIFEST.json', 'w'), indent=1)
main()
