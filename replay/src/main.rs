//! vreplay — re-executes inputs on the REAL crate (built from /repo's working tree with
//! `--cfg meshless_voro_verif`). One JSON request per stdin line, one JSON answer per line.
use glam::DVec3;
use meshless_voronoi::verif_hooks as h;
use meshless_voronoi::{Dimensionality, Voronoi};
use serde_json::{json, Value};
use std::io::{BufRead, Write};

fn f(v: &Value) -> f64 {
    if let Some(s) = v.as_str() {
        // hex bit pattern "0x..." or decimal string
        if let Some(hx) = s.strip_prefix("0x") {
            return f64::from_bits(u64::from_str_radix(hx, 16).unwrap());
        }
        return s.parse().unwrap();
    }
    v.as_f64().unwrap()
}
fn v3(v: &Value) -> DVec3 {
    DVec3::new(f(&v[0]), f(&v[1]), f(&v[2]))
}
fn j3(v: DVec3) -> Value {
    json!([v.x, v.y, v.z])
}
fn bits3(v: DVec3) -> Value {
    json!([format!("0x{:016x}", v.x.to_bits()), format!("0x{:016x}", v.y.to_bits()), format!("0x{:016x}", v.z.to_bits())])
}
fn i3(v: &Value) -> Vec<i64> {
    v.as_array().unwrap().iter().map(|x| x.as_i64().unwrap()).collect()
}
fn dim(v: &Value) -> Dimensionality {
    match v.as_u64().unwrap_or(3) {
        1 => Dimensionality::OneD,
        2 => Dimensionality::TwoD,
        _ => Dimensionality::ThreeD,
    }
}
fn opt3(v: &Value) -> Option<DVec3> {
    if v.is_null() { None } else { Some(v3(v)) }
}

fn handle(req: &Value) -> Value {
    match req["op"].as_str().unwrap_or("") {
        "in_sphere_exact" => {
            let p: Vec<Vec<i64>> = req["pts"].as_array().unwrap().iter().map(i3).collect();
            json!({"r": h::in_sphere_test_exact(&p[0], &p[1], &p[2], &p[3], &p[4])})
        }
        "iloc" => {
            let b = h::cuboid(v3(&req["anchor"]), v3(&req["width"]), req["periodic"].as_bool().unwrap_or(false), dim(&req["dim"]));
            let r = b.iloc(v3(&req["loc"]));
            json!({"r": r})
        }
        "cuboid_planes" => {
            let b = h::cuboid(v3(&req["anchor"]), v3(&req["width"]), req["periodic"].as_bool().unwrap_or(false), dim(&req["dim"]));
            let pl: Vec<Value> = b.clipping_planes().iter().map(|p| json!({"n": j3(p.plane.n), "p": j3(p.plane.p)})).collect();
            json!({"planes": pl})
        }
        "generator_new" => {
            let g = h::generator_new(req["id"].as_u64().unwrap() as usize, v3(&req["loc"]), dim(&req["dim"]));
            json!({"id": g.id(), "loc": bits3(g.loc())})
        }
        "geom" => geom(req),
        "cycle" => cycle(req),
        "build" => build(req),
        "finalize" => {
            let n = req["n_cells"].as_u64().unwrap() as usize;
            let faces: Vec<(usize, Option<usize>, Option<DVec3>)> = req["faces"].as_array().unwrap().iter().map(|fc| {
                (fc[0].as_u64().unwrap() as usize, fc[1].as_u64().map(|x| x as usize), opt3(&fc[2]))
            }).collect();
            let v = h::voronoi_from_raw_faces(n, &faces);
            voronoi_json(&v)
        }
        "cell_face_labels" => {
            // per 3D cell with face data: (neighbour(f), shift(f), vertex count) of every face, next to the stored VoronoiFaces whose left is that cell
            let gens: Vec<DVec3> = req["gens"].as_array().unwrap().iter().map(v3).collect();
            let periodic = req["periodic"].as_bool().unwrap_or(false);
            let vi = meshless_voronoi::VoronoiIntegrator::build(&gens, None, v3(&req["anchor"]), v3(&req["width"]), Dimensionality::ThreeD, periodic);
            let vor = Voronoi::from(&vi);
            let wf = vi.with_faces();
            let cells: Vec<Value> = wf.cells_iter().map(|c| {
                let acc: Vec<Value> = (0..c.face_count()).map(|f| json!({"neighbour": c.neighbour(f), "shift": c.shift(f).map(j3), "n_vertices": c.face_vertex_count(f),
                    "vertices": c.face_vertices(f)})).collect();
                let stored: Vec<Value> = vor.faces().iter().filter(|fc| fc.left() == c.idx).map(|fc| json!({"right": fc.right(), "shift": fc.shift().map(j3)})).collect();
                json!({"idx": c.idx, "accessors": acc, "stored_faces_with_this_left": stored, "n_vertices": c.vertices.len()})
            }).collect();
            json!({"cells": cells})
        }
        "cell_duals" => {
            // the vertices (as plane triples) of every constructed 3D cell, straight from ConvexCell::build
            let gens: Vec<DVec3> = req["gens"].as_array().unwrap().iter().map(v3).collect();
            let periodic = req["periodic"].as_bool().unwrap_or(false);
            let r = std::panic::catch_unwind(|| {
                let vi = meshless_voronoi::VoronoiIntegrator::build(&gens, None, v3(&req["anchor"]), v3(&req["width"]), Dimensionality::ThreeD, periodic);
                let cells: Vec<Value> = vi.cells_iter().map(|c| {
                    let duals: Vec<Vec<usize>> = c.vertices.iter().map(|v| v.dual.to_vec()).collect();
                    json!({"idx": c.idx, "n_planes": c.clipping_planes.len(), "duals": duals})
                }).collect();
                json!({"cells": cells})
            });
            r.unwrap_or_else(|_| json!({"panic": true}))
        }
        "space_knn" => {
            let pos: Vec<DVec3> = req["positions"].as_array().unwrap().iter().map(v3).collect();
            let k = req["k"].as_u64().unwrap() as usize;
            let r = std::panic::catch_unwind(|| h::space_knn(v3(&req["anchor"]), v3(&req["width"]), f(&req["max_cell_width"]), &pos, k));
            match r { Ok(nn) => json!({"knn": nn}), Err(_) => json!({"panic": true}) }
        }
        "space_cells" => {
            let cells: Vec<Value> = h::space_cells(v3(&req["anchor"]), v3(&req["width"]), f(&req["max_cell_width"])).iter().map(|(l, w)| json!({"loc": j3(*l), "width": j3(*w)})).collect();
            json!({"cells": cells})
        }
        "bounding_sphere" => {
            let pts: Vec<DVec3> = req["points"].as_array().unwrap().iter().map(v3).collect();
            let r = std::panic::catch_unwind(|| h::bounding_sphere(&pts, req["exact"].as_bool().unwrap_or(false)));
            match r { Ok((c, rad)) => json!({"c": j3(c), "r": rad}), Err(_) => json!({"panic": true}) }
        }
        "nn_shifts" => {
            // the complete candidate sequence of the periodic neighbour search for one query generator
            let d = dim(&req["dim"]);
            let gens: Vec<_> = req["gens"].as_array().unwrap().iter().enumerate().map(|(i, g)| h::generator_new(i, v3(g), d)).collect();
            let q = req["query"].as_u64().unwrap() as usize;
            let r = std::panic::catch_unwind(|| h::wrapping_nn_shifts(&gens, gens[q].loc(), v3(&req["width"]), d, req["take"].as_u64().unwrap() as usize));
            match r {
                Ok(seq) => json!({"seq": seq.iter().map(|(i, s)| json!([i, s.map(j3)])).collect::<Vec<_>>()}),
                Err(_) => json!({"panic": true}),
            }
        }
        "polytope" => {
            // every 3D cell with stored face information: vertices, planes, face polygons, accessors, face areas, and the same after discard_faces().with_faces()
            let gens: Vec<DVec3> = req["gens"].as_array().unwrap().iter().map(v3).collect();
            let periodic = req["periodic"].as_bool().unwrap_or(false);
            let r = std::panic::catch_unwind(|| {
                let vi = meshless_voronoi::VoronoiIntegrator::build(&gens, None, v3(&req["anchor"]), v3(&req["width"]), Dimensionality::ThreeD, periodic).with_faces();
                let cells: Vec<Value> = vi.cells_iter().map(|c| {
                    let verts: Vec<Value> = c.vertices.iter().map(|v| json!({"loc": j3(v.loc), "dual": v.dual.to_vec()})).collect();
                    let planes: Vec<Value> = c.clipping_planes.iter().map(|h| json!({"n": j3(h.plane.n), "p": j3(h.plane.p)})).collect();
                    let faces: Vec<Value> = (0..c.face_count()).map(|f| json!({"vertices": c.face_vertices(f), "count": c.face_vertex_count(f), "neighbour": c.neighbour(f), "shift": c.shift(f).map(j3),
                        "plane": {"n": j3(c.clipping_plane(f).n), "p": j3(c.clipping_plane(f).p)}})).collect();
                    let areas: Vec<Value> = c.compute_face_integrals::<(), meshless_voronoi::integrals::AreaIntegral>(()).iter()
                        .map(|fi| json!({"right": fi.right(), "shift": fi.shift().map(j3), "area": fi.integral().area})).collect();
                    let again = c.clone().discard_faces().with_faces();
                    let faces2: Vec<Value> = (0..again.face_count()).map(|f| json!({"vertices": again.face_vertices(f), "neighbour": again.neighbour(f), "shift": again.shift(f).map(j3)})).collect();
                    json!({"idx": c.idx, "loc": j3(c.loc), "vertices": verts, "planes": planes, "faces": faces, "areas": areas, "faces_after_discard_and_rederive": faces2})
                }).collect();
                json!({"cells": cells})
            });
            r.unwrap_or_else(|_| json!({"panic": true}))
        }
        "sym_vs_stored" => {
            // the symmetric face integrals of an integrator next to the faces stored by the tessellation converted from it
            let gens: Vec<DVec3> = req["gens"].as_array().unwrap().iter().map(v3).collect();
            let mask: Option<Vec<bool>> = req["mask"].as_array().map(|m| m.iter().map(|b| b.as_bool().unwrap()).collect());
            let r = std::panic::catch_unwind(|| {
                let vi = meshless_voronoi::VoronoiIntegrator::build(&gens, mask.as_deref(), v3(&req["anchor"]), v3(&req["width"]), dim(&req["dim"]), req["periodic"].as_bool().unwrap_or(false));
                let sym: Vec<Value> = vi.compute_face_integrals_sym::<meshless_voronoi::integrals::AreaIntegral>().iter()
                    .map(|f| json!({"left": f.left(), "right": f.right(), "shift": f.shift().map(j3), "area": f.integral().area})).collect();
                let vor = Voronoi::from(&vi);
                let stored: Vec<Value> = vor.faces().iter().map(|f| json!({"left": f.left(), "right": f.right(), "shift": f.shift().map(j3), "area": f.area()})).collect();
                json!({"sym": sym, "stored": stored})
            });
            r.unwrap_or_else(|_| json!({"panic": true}))
        }
        "with_faces_lowdim" => {
            // requesting face information for a single cell of a 1D / 2D tessellation must be rejected (panic)
            let gens: Vec<DVec3> = req["gens"].as_array().unwrap().iter().map(v3).collect();
            let vi = meshless_voronoi::VoronoiIntegrator::build(&gens, None, v3(&req["anchor"]), v3(&req["width"]), dim(&req["dim"]), req["periodic"].as_bool().unwrap_or(false));
            let cell = vi.get_cell_at(0).unwrap().clone();
            let per_cell = std::panic::catch_unwind(std::panic::AssertUnwindSafe(|| { let c = cell.with_faces(); c.face_count() }));
            let whole = std::panic::catch_unwind(std::panic::AssertUnwindSafe(|| { let w = vi.clone().with_faces(); w.cells_iter().count() }));
            json!({"per_cell_rejected": per_cell.is_err(), "whole_integrator_rejected": whole.is_err(), "faces_if_accepted": per_cell.ok()})
        }
        "halfspace_clip" => {
            let hs = meshless_voronoi::HalfSpace::new(v3(&req["n"]), v3(&req["p"]), None, None);
            json!({"r": hs.clip(v3(&req["v"]))})
        }
        "right_loc" => {
            let gens: Vec<_> = req["gens"].as_array().unwrap().iter().enumerate().map(|(i, g)| h::generator_new(i, v3(g), Dimensionality::ThreeD)).collect();
            let hs = meshless_voronoi::HalfSpace::new(v3(&req["n"]), v3(&req["p"]), req["right"].as_u64().map(|x| x as usize), opt3(&req["shift"]));
            json!({"r": j3(hs.right_loc(req["left"].as_u64().unwrap() as usize, &gens))})
        }
        other => json!({"error": format!("unknown op {other}")}),
    }
}

fn geom(req: &Value) -> Value {
    use meshless_voronoi::geometry::*;
    let a = |k: &str| v3(&req[k]);
    match req["fn"].as_str().unwrap() {
        "intersect_planes" => {
            let r = intersect_planes(&Plane::new(a("n0"), a("p0")), &Plane::new(a("n1"), a("p1")), &Plane::new(a("n2"), a("p2")));
            json!({"r": j3(r)})
        }
        "project_onto" => json!({"r": j3(Plane::new(a("n"), a("p")).project_onto(a("x")))}),
        "project_onto_intersection" => {
            json!({"r": j3(Plane::new(a("n0"), a("p0")).project_onto_intersection(&Plane::new(a("n1"), a("p1")), a("x")))})
        }
        "signed_volume_tet" => json!({"r": signed_volume_tet(a("v0"), a("v1"), a("v2"), a("v3"))}),
        "signed_area_tri" => json!({"r": signed_area_tri(a("v0"), a("v1"), a("v2"), a("t"))}),
        "from_two_points" => { let s = Sphere::from_two_points(a("a"), a("b")); json!({"c": j3(s.center), "r": s.radius}) }
        "from_three_points" => { let s = Sphere::from_three_points(a("a"), a("b"), a("c")); json!({"c": j3(s.center), "r": s.radius}) }
        "from_four_points" => { let s = Sphere::from_four_points(a("a"), a("b"), a("c"), a("d")); json!({"c": j3(s.center), "r": s.radius}) }
        "extend" => { let s = Sphere::new(a("c"), f(&req["r"])).extend(a("x")); json!({"c": j3(s.center), "r": s.radius}) }
        "contains" => json!({"r": Sphere::new(a("c"), f(&req["r"])).contains(a("x"))}),
        other => json!({"error": format!("unknown geom fn {other}")}),
    }
}

fn cycle(req: &Value) -> Value {
    let mut c = h::Cycle::new(req["capacity"].as_u64().unwrap() as usize);
    let mut log = vec![];
    for op in req["ops"].as_array().unwrap() {
        let t = |i: usize| op[i].as_u64().unwrap() as usize;
        match op[0].as_str().unwrap() {
            "init" => { c.init(t(1), t(2), t(3)); log.push(json!("init")); }
            "grow" => { c.grow(); log.push(json!("grow")); }
            "ext" => { let r = c.try_extend(t(1), t(2), t(3)); log.push(json!(r.is_ok())); }
            _ => {}
        }
    }
    let (ptrs, start, len) = c.state();
    json!({"log": log, "ptrs": ptrs, "start": start, "len": len})
}

fn voronoi_json(v: &Voronoi) -> Value {
    let cells: Vec<Value> = v.cells().iter().map(|c| {
        json!({"loc": j3(c.loc()), "centroid": j3(c.centroid()), "volume": c.volume(), "safety_radius": c.safety_radius(),
               "offset": c.face_connections_offset(), "count": c.face_count(),
               "face_indices": c.face_indices(v), "neighbours": c.neighbour_ids(v).collect::<Vec<_>>()})
    }).collect();
    let faces: Vec<Value> = v.faces().iter().map(|fc| {
        json!({"left": fc.left(), "right": fc.right(), "shift": fc.shift().map(j3), "area": fc.area(),
               "centroid": j3(fc.centroid()), "normal": j3(fc.normal())})
    }).collect();
    json!({"cells": cells, "faces": faces, "connections": v.cell_face_connections()})
}

fn build(req: &Value) -> Value {
    let gens: Vec<DVec3> = req["gens"].as_array().unwrap().iter().map(v3).collect();
    let d = dim(&req["dim"]);
    let periodic = req["periodic"].as_bool().unwrap_or(false);
    let integrator = req["route"].as_str() == Some("integrator");
    let r = std::panic::catch_unwind(|| {
        if integrator {
            let m: Option<Vec<bool>> = req["mask"].as_array().map(|mask| mask.iter().map(|b| b.as_bool().unwrap()).collect());
            let vi = meshless_voronoi::VoronoiIntegrator::build(&gens, m.as_deref(), v3(&req["anchor"]), v3(&req["width"]), d, periodic);
            Voronoi::from(&vi)
        } else if let Some(mask) = req["mask"].as_array() {
            let m: Vec<bool> = mask.iter().map(|b| b.as_bool().unwrap()).collect();
            Voronoi::build_partial(&gens, &m, v3(&req["anchor"]), v3(&req["width"]), d, periodic)
        } else {
            Voronoi::build(&gens, v3(&req["anchor"]), v3(&req["width"]), d, periodic)
        }
    });
    match r {
        Ok(v) => voronoi_json(&v),
        Err(_) => json!({"panic": true}),
    }
}

fn main() {
    let stdin = std::io::stdin();
    let stdout = std::io::stdout();
    let mut out = stdout.lock();
    for line in stdin.lock().lines() {
        let line = line.unwrap();
        if line.trim().is_empty() { continue; }
        let req: Value = serde_json::from_str(&line).unwrap();
        let ans = std::panic::catch_unwind(|| handle(&req)).unwrap_or_else(|_| json!({"panic": true}));
        writeln!(out, "{}", ans).unwrap();
    }
}
