//! vdownstream — custom integrals defined OUTSIDE the crate, through the public traits only.
//! One JSON request per stdin line ({"op":"moments", gens, anchor, width, dim, periodic, mask}), one JSON answer per line.
use glam::DVec3;
use meshless_voronoi::geometry::{signed_area_tri, signed_volume_tet};
use meshless_voronoi::integrals::{AreaCentroidIntegral, CellIntegral, FaceIntegral, VolumeCentroidIntegral};
#[cfg(feature = "with_data")]
use meshless_voronoi::integrals::{CellIntegralWithData, FaceIntegralWithData};
use meshless_voronoi::{ConvexCell, ConvexCellMarker, Dimensionality, Voronoi, VoronoiIntegrator};
use serde_json::{json, Value};
use std::io::{BufRead, Write};

/// Integrals of 1, x, y, z, xx, yy, zz, xy, xz, yz over the signed tetrahedra (exact for polynomials of degree <= 2).
#[derive(Clone, Default)]
struct Moments {
    m: [f64; 10],
    idx: usize,
    data: usize,
}
fn tet_moments(p: [DVec3; 4], vol: f64, m: &mut [f64; 10]) {
    let s = p[0] + p[1] + p[2] + p[3];
    m[0] += vol;
    m[1] += vol * s.x / 4.;
    m[2] += vol * s.y / 4.;
    m[3] += vol * s.z / 4.;
    let q = |a: fn(DVec3) -> f64, b: fn(DVec3) -> f64| -> f64 {
        let mut t = 0.;
        for i in 0..4 {
            for j in 0..4 {
                t += a(p[i]) * b(p[j]) * if i == j { 2. } else { 1. };
            }
        }
        vol * t / 20.
    };
    let (x, y, z): (fn(DVec3) -> f64, fn(DVec3) -> f64, fn(DVec3) -> f64) = (|v| v.x, |v| v.y, |v| v.z);
    m[4] += q(x, x);
    m[5] += q(y, y);
    m[6] += q(z, z);
    m[7] += q(x, y);
    m[8] += q(x, z);
    m[9] += q(y, z);
}
impl CellIntegral for Moments {
    fn init<M: ConvexCellMarker>(cell: &ConvexCell<M>) -> Self {
        Moments { m: [0.; 10], idx: cell.idx, data: usize::MAX }
    }
    fn collect(&mut self, v0: DVec3, v1: DVec3, v2: DVec3, gen: DVec3) {
        tet_moments([v0, v1, v2, gen], signed_volume_tet(v0, v1, v2, gen), &mut self.m);
    }
    fn finalize(self) -> Self {
        self
    }
}
/// The same with per-cell data: records which datum reached which cell.
#[cfg(feature = "with_data")]
#[derive(Clone, Default)]
struct Tagged(Moments);
#[cfg(feature = "with_data")]
impl CellIntegral for Tagged {
    fn init<M: ConvexCellMarker>(cell: &ConvexCell<M>) -> Self {
        Tagged(Moments::init(cell))
    }
    fn collect(&mut self, v0: DVec3, v1: DVec3, v2: DVec3, gen: DVec3) {
        self.0.collect(v0, v1, v2, gen)
    }
    fn finalize(self) -> Self {
        self
    }
}
#[cfg(feature = "with_data")]
impl CellIntegralWithData for Tagged {
    type Data = usize;
    fn init_with_data<M: ConvexCellMarker>(cell: &ConvexCell<M>, data: usize) -> Self {
        let mut t = Tagged(Moments::init(cell));
        t.0.data = data;
        t
    }
}

/// Face integral: signed area, and how far the base triangles are from the plane the face is labelled with.
#[derive(Clone, Default)]
struct FaceProbe {
    area: f64,
    off_plane: f64,
    n: DVec3,
    p: DVec3,
    left: usize,
    data: usize,
}
impl FaceIntegral for FaceProbe {
    fn init<M: ConvexCellMarker>(cell: &ConvexCell<M>, clipping_plane_idx: usize) -> Self {
        let pl = &cell.clipping_planes[clipping_plane_idx].plane;
        FaceProbe { area: 0., off_plane: 0., n: pl.n, p: pl.p, left: cell.idx, data: usize::MAX }
    }
    fn collect(&mut self, v0: DVec3, v1: DVec3, v2: DVec3, gen: DVec3) {
        self.area += signed_area_tri(v0, v1, v2, gen);
        for v in [v0, v1, v2] {
            self.off_plane = self.off_plane.max(((v - self.p).dot(self.n)).abs());
        }
    }
    fn finalize(self) -> Self {
        self
    }
}
#[cfg(feature = "with_data")]
#[derive(Clone, Default)]
struct TaggedFace(FaceProbe);
#[cfg(feature = "with_data")]
impl FaceIntegral for TaggedFace {
    fn init<M: ConvexCellMarker>(cell: &ConvexCell<M>, k: usize) -> Self {
        TaggedFace(FaceProbe::init(cell, k))
    }
    fn collect(&mut self, v0: DVec3, v1: DVec3, v2: DVec3, gen: DVec3) {
        self.0.collect(v0, v1, v2, gen)
    }
    fn finalize(self) -> Self {
        self
    }
}
#[cfg(feature = "with_data")]
impl FaceIntegralWithData for TaggedFace {
    type Data = usize;
    fn init_with_data<M: ConvexCellMarker>(cell: &ConvexCell<M>, k: usize, data: usize) -> Self {
        let mut t = TaggedFace(FaceProbe::init(cell, k));
        t.0.data = data;
        t
    }
}

fn f(v: &Value) -> f64 {
    v.as_f64().unwrap()
}
fn v3(v: &Value) -> DVec3 {
    DVec3::new(f(&v[0]), f(&v[1]), f(&v[2]))
}

fn moments(req: &Value) -> Value {
    let gens: Vec<DVec3> = req["gens"].as_array().unwrap().iter().map(v3).collect();
    let d = match req["dim"].as_u64().unwrap_or(3) { 1 => Dimensionality::OneD, 2 => Dimensionality::TwoD, _ => Dimensionality::ThreeD };
    let three_d = req["dim"].as_u64().unwrap_or(3) == 3;
    let periodic = req["periodic"].as_bool().unwrap_or(false);
    let mask: Option<Vec<bool>> = req["mask"].as_array().map(|m| m.iter().map(|b| b.as_bool().unwrap()).collect());
    let (anchor, width) = (v3(&req["anchor"]), v3(&req["width"]));
    let vi = VoronoiIntegrator::build(&gens, mask.as_deref(), anchor, width, d, periodic);
    let vor = Voronoi::from(&vi);
    let sc = width.x.max(width.y).max(width.z);
    let tol = 1e-9;
    let close = |a: f64, b: f64, s: f64| (a - b).abs() <= tol * s.max(a.abs()).max(b.abs());
    // (a) moments of each constructed cell; against the stored volume / centroid
    let cm: Vec<Moments> = vi.compute_cell_integrals::<Moments>();
    let active: Vec<usize> = (0..gens.len()).filter(|&i| mask.as_ref().map_or(true, |m| m[i])).collect();
    if cm.len() != active.len() {
        return json!({"bad": {"what": "number of cell integrals != number of constructed cells", "got": cm.len(), "want": active.len()}});
    }
    for (k, m) in cm.iter().enumerate() {
        if m.idx != active[k] {
            return json!({"bad": {"what": "cell integrals are not in generator-index order of the constructed cells", "position": k, "cell": m.idx, "want": active[k]}});
        }
        let c = &vor.cells()[m.idx];
        if !close(m.m[0], c.volume(), sc * sc * sc) || m.m[0] <= 0. {
            return json!({"bad": {"what": "integral of 1 over the decomposition != stored cell volume (or not positive)", "cell": m.idx, "integral": m.m[0], "stored": c.volume()}});
        }
        let cen = DVec3::new(m.m[1], m.m[2], m.m[3]) / m.m[0];
        if (cen - c.centroid()).length() > 1e-7 * sc {
            return json!({"bad": {"what": "first moments / volume != stored centroid", "cell": m.idx, "integral": [cen.x, cen.y, cen.z], "stored": [c.centroid().x, c.centroid().y, c.centroid().z]}});
        }
    }
    // (b) all cells constructed, reflective: the signed measures of the cells add up to the box (moments up to degree 2)
    if mask.is_none() && !periodic {
        let mut tot = [0.; 10];
        for m in &cm {
            for i in 0..10 {
                tot[i] += m.m[i];
            }
        }
        // box [a, a+w] with the unused axes normalised to [-0.5, 0.5] by the library
        let dimn = req["dim"].as_u64().unwrap_or(3);
        let lo = DVec3::new(anchor.x, if dimn >= 2 { anchor.y } else { -0.5 }, if dimn == 3 { anchor.z } else { -0.5 });
        let w = DVec3::new(width.x, if dimn >= 2 { width.y } else { 1. }, if dimn == 3 { width.z } else { 1. });
        let hi = lo + w;
        let vol = w.x * w.y * w.z;
        let m1 = |l: f64, h: f64| (l + h) / 2.;
        let m2 = |l: f64, h: f64| (h * h * h - l * l * l) / (3. * (h - l));
        let want = [vol, vol * m1(lo.x, hi.x), vol * m1(lo.y, hi.y), vol * m1(lo.z, hi.z), vol * m2(lo.x, hi.x), vol * m2(lo.y, hi.y), vol * m2(lo.z, hi.z),
            vol * m1(lo.x, hi.x) * m1(lo.y, hi.y), vol * m1(lo.x, hi.x) * m1(lo.z, hi.z), vol * m1(lo.y, hi.y) * m1(lo.z, hi.z)];
        let big = (lo.abs().max(hi.abs())).max_element().max(1.);
        for i in 0..10 {
            if (tot[i] - want[i]).abs() > 1e-8 * vol.max(1.) * big * big {
                return json!({"bad": {"what": "the signed tetrahedra of all cells do not add up to the box (polynomial basis up to degree 2)", "basis_function": i, "sum_over_cells": tot[i], "box": want[i]}});
            }
        }
    }
    // (c) cells with stored faces give the same integrals (3D only), and are still found under their generator index
    if three_d {
        let wf = vi.clone().with_faces();
        for i in 0..gens.len() {
            let want = if mask.as_ref().map_or(true, |m| m[i]) { Some(i) } else { None };
            let got = std::panic::catch_unwind(std::panic::AssertUnwindSafe(|| wf.get_cell_at(i).map(|c| c.idx)));
            if got.as_ref().ok() != Some(&want) {
                return json!({"bad": {"what": "after with_faces(), get_cell_at(i) is not the cell of generator i (None for an unconstructed one)", "i": i, "got": format!("{:?}", got), "want": want}});
            }
        }
        let cf: Vec<Moments> = wf.compute_cell_integrals::<Moments>();
        for (a, b) in cm.iter().zip(cf.iter()) {
            for i in 0..10 {
                if (a.m[i] - b.m[i]).abs() > 1e-8 * sc.powi(3) * (1. + sc * sc) {
                    return json!({"bad": {"what": "cells with and without stored faces give different integrals", "cell": a.idx, "basis_function": i, "without_faces": a.m[i], "with_faces": b.m[i]}});
                }
            }
        }
    }
    // (d) face integrals: base triangles in the face's plane; signed areas sum to the built-in area integral
    let fp = vi.compute_face_integrals::<FaceProbe>();
    let fa = vi.compute_face_integrals::<AreaCentroidIntegral>();
    if fp.len() != fa.len() {
        return json!({"bad": {"what": "custom and built-in face integrals differ in number"}});
    }
    for (p, a) in fp.iter().zip(fa.iter()) {
        if p.integral().off_plane > 1e-9 * sc {
            return json!({"bad": {"what": "a base triangle fed to a face integral does not lie in that face's plane", "left": p.left(), "right": p.right(), "distance": p.integral().off_plane}});
        }
        if !close(p.integral().area, a.integral().area, sc * sc) || p.left() != a.left() || p.right() != a.right() {
            return json!({"bad": {"what": "signed areas fed to a custom face integral do not sum to the face area", "left": p.left(), "custom": p.integral().area, "builtin": a.integral().area}});
        }
    }
    // every face of the cell is fed: a single generator in a reflective box has the 2d walls as faces, wherever it sits (also ON a wall)
    if gens.len() == 1 && !periodic {
        let dimn = req["dim"].as_u64().unwrap_or(3) as usize;
        if fp.len() != 2 * dimn {
            return json!({"bad": {"what": "a single-generator cell in a reflective box must report its 2d wall faces to a face integral", "faces_fed": fp.len(), "want": 2 * dimn}});
        }
    }
    let _ = vi.compute_cell_integrals::<VolumeCentroidIntegral>();
    #[cfg(feature = "with_data")]
    {
    // (e) per-cell data reaches the cell with the same generator index, also under masks
    let data: Vec<usize> = (0..gens.len()).collect();
    let tc: Vec<Tagged> = vi.compute_cell_integrals_with_data::<usize, Tagged>(&data);
    for t in &tc {
        if t.0.data != t.0.idx {
            return json!({"bad": {"what": "per-cell data delivered to the wrong cell (cell integrals)", "cell": t.0.idx, "data_of_cell": t.0.data}});
        }
    }
    if tc.len() != active.len() {
        return json!({"bad": {"what": "number of cell integrals with data != number of constructed cells"}});
    }
    for (name, fs) in [("compute_face_integrals_with_data", vi.compute_face_integrals_with_data::<usize, TaggedFace>(&data)),
        ("compute_face_integrals_sym_with_data", vi.compute_face_integrals_sym_with_data::<usize, TaggedFace>(&data))] {
        for t in &fs {
            if t.integral().0.data != t.left() || t.integral().0.left != t.left() {
                return json!({"bad": {"what": "per-cell data delivered to the wrong cell (face integrals)", "route": name, "left": t.left(), "data": t.integral().0.data}});
            }
        }
    }
    }
    json!({"ok": true, "cells": cm.len(), "faces": fp.len()})
}

fn main() {
    let stdin = std::io::stdin();
    let stdout = std::io::stdout();
    let mut out = stdout.lock();
    for line in stdin.lock().lines() {
        let line = line.unwrap();
        if line.trim().is_empty() {
            continue;
        }
        let req: Value = serde_json::from_str(&line).unwrap();
        let ans = std::panic::catch_unwind(|| moments(&req)).unwrap_or_else(|_| json!({"panic": true}));
        writeln!(out, "{}", ans).unwrap();
    }
}
