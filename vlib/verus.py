"""E1: assemble a single-file Verus program from functions sliced VERBATIM out of the repository's source and
contracts spliced in from /verif/contracts/*.vspec, run Verus, classify per function.

What the assembly changes (and nothing else; anything unexpected -> Undecided):
  W1 visibility -> pub; attributes and doc comments dropped
  W2 assert!/debug_assert!/assert_eq!/panic! -> `if !(c) { vx_panic(); }`; `.expect(..)`/`.unwrap()` -> vx_unwrap(..)
     (vx_panic / vx_unwrap are diverging external functions WITHOUT a precondition: panicking is allowed)
  W3 the return type `-> T` becomes `-> (res: T)` so that postconditions can name the result
  W5 `for p in e` becomes `for p in vx_it<k>: e` (names Verus' ghost iterator so invariants can mention it)
  W6 trait-impl methods are emitted in an inherent impl (Verus forbids requires on trait impls); `Self::Item` in the
     signature is replaced by the impl's own `type Item = ..;`
  W8  `for (I, X) in E.iter().enumerate() { B }`      -> `for I in 0..E.len() { let X = &E[I]; B }`
  W9  `for (I, X) in E.iter_mut().enumerate() { B }`  -> `for I in 0..E.len() { B[X := E[I]] }` (X occurs in B only as a plain path)
  W10 `(0..N).map(|_| vec![]).collect()` -> `vx_empty_lists(N)`; `flatten!(E)` -> `vx_flatten(E)` (the macro's definition is checked to be
      `$array.into_iter().flatten().collect::<Vec<_>>()`); both are external_body functions with an assumed std specification
  W11 `fn f(mut self, ..) { B }` -> `fn f(self, ..) { let mut vx_self = self; B[self := vx_self] }` (Verus has no `mut self` parameters)
  W7 `struct_keep`: a struct is reduced to the fields the units under contract read (names and types verbatim, generics dropped)
  W13-W16 statement-range slices (see transform_slice): `for` over a local iterator -> loop/match, `.take(n)` -> vx_take, a named statement
      replaced by an external call with a listed contract, the range wrapped as a function whose header is given in the .vspec
  W12 associated `const` items of a type whose methods are under contract are copied verbatim into the emitted impl
  W4 requires/ensures/invariant/decreases/proof text from the .vspec file is inserted before the body / loop body /
     a named statement. The .vspec text contains no executable statements.
"""
import json, os, re, subprocess, time
from . import extract
from .extract import Undecided, BUILD, VERIF
from .runner import Result


def parse_vspec(path):
    sections, cur, buf = {}, None, []
    for line in open(path):
        if line.startswith("@@"):
            if cur is not None: sections.setdefault(cur, []).append("".join(buf))
            cur, buf = line[2:].strip(), []
        else:
            buf.append(line)
    if cur is not None: sections.setdefault(cur, []).append("".join(buf))
    return sections


def _loops(fn):
    return extract.find_nodes(fn["body"], lambda n: n.get("k") in ("while", "for", "loop"))


def transform_fn(tree, fn, spec, keep_vis=False):
    """Edited text of one function item."""
    raw = tree["_bytes"]
    lo, hi = fn["sp"]
    edits = []  # (start, end, replacement)
    for a in fn.get("attrs", []):
        edits.append((a["sp"][0], a["sp"][1], ""))
    sig = fn["sig"]
    if fn.get("vis") is not None:
        edits.append((fn["vis"][0], fn["vis"][1], "pub"))
    else:
        edits.append((sig["sp"][0], sig["sp"][0], "pub "))
    path = fn["path"].split("@")[0]
    pre_attr = "".join(spec.get("attr " + path, []))
    if pre_attr.strip():
        edits.append((lo, lo, pre_attr.rstrip() + "\n"))
    if sig["ret"] is not None:
        rt = raw[sig["ret"]["sp"][0]:sig["ret"]["sp"][1]].decode()
        # W6: a trait-impl method is emitted in an inherent impl; `Self::X` is replaced by the impl's `type X = ..;`
        for name, ty in (fn.get("_assoc") or {}).items():
            rt = rt.replace("Self::" + name, ty)
        edits.append((sig["ret"]["sp"][0], sig["ret"]["sp"][1], "(res: %s)" % rt))
    body0 = fn["body"]["sp"][0]
    con = "".join(spec.get("fn " + path, []))
    if con.strip():
        edits.append((body0, body0, "\n" + con.rstrip() + "\n"))
    T = lambda n: raw[n["sp"][0]:n["sp"][1]].decode()
    for k, lp in enumerate(_loops(fn)):
        inv = "".join(spec.get("loop %s #%d" % (path, k), []))
        e = lp.get("e") if lp["k"] == "for" else None
        if e is not None and e.get("k") == "mcall" and e["m"] == "enumerate" and e["recv"].get("k") == "mcall" and e["recv"]["m"] in ("iter", "iter_mut") \
                and not e["args"] and not e["recv"]["args"]:
            # W8 / W9
            pat = lp["pat"]
            if pat["k"] != "ptuple" or len(pat["elems"]) != 2 or any(x["k"] != "pident" or x["mut"] or x["byref"] for x in pat["elems"]):
                raise Undecided("for-enumerate pattern outside the E1 subset in %s" % path)
            I, X = pat["elems"][0]["name"], pat["elems"][1]["name"]
            E = T(e["recv"]["recv"])
            head = "for %s in vx_it%d: 0..%s.len()" % (I, k, E)
            edits.append((lp["hsp"][0], lp["hsp"][1], head + ("\n" + inv.rstrip() + "\n" if inv.strip() else "")))
            b0 = lp["body"]["sp"][0]
            if e["recv"]["m"] == "iter":
                edits.append((b0 + 1, b0 + 1, " let %s = &%s[%s];" % (X, E, I)))
            else:
                uses = extract.find_nodes(lp["body"], lambda n: n.get("k") == "path" and n["segs"] == [X])
                binds = extract.find_nodes(lp["body"], lambda n: n.get("k") == "pident" and n.get("name") == X)
                if binds: raise Undecided("W9: %s is re-bound inside the loop body in %s" % (X, path))
                for u_ in uses: edits.append((u_["sp"][0], u_["sp"][1], "%s[%s]" % (E, I)))
            continue
        if lp["k"] == "for":
            # W5: name the ghost iterator of a for loop (Verus syntax `for x in it: e`); executable semantics unchanged
            edits.append((lp["e"]["sp"][0], lp["e"]["sp"][0], "vx_it%d: " % k))
        if inv.strip():
            at = lp["hsp"][1]
            edits.append((at, at, "\n" + inv.rstrip() + "\n"))
    # W10
    def is_empty_lists(n):
        try:
            return (n["k"] == "mcall" and n["m"] == "collect" and n["recv"]["k"] == "mcall" and n["recv"]["m"] == "map"
                    and n["recv"]["recv"]["k"] == "paren" and n["recv"]["recv"]["e"]["k"] == "range" and not n["recv"]["recv"]["e"]["inclusive"]
                    and T(n["recv"]["recv"]["e"]["lo"]) == "0" and len(n["recv"]["args"]) == 1 and n["recv"]["args"][0]["k"] == "closure"
                    and [q["k"] for q in n["recv"]["args"][0]["params"]] == ["pwild"] and T(n["recv"]["args"][0]["body"]).replace(" ", "") == "vec![]")
        except (KeyError, TypeError):
            return False
    for m in extract.find_nodes(fn["body"], is_empty_lists):
        edits.append((m["sp"][0], m["sp"][1], "vx_empty_lists(%s)" % T(m["recv"]["recv"]["e"]["hi"])))
    # W2
    for m in extract.find_nodes(fn["body"], lambda n: n.get("k") == "macro"):
        name = m["name"]
        if name in ("assert", "debug_assert"):
            c = raw[m["args"][0]["sp"][0]:m["args"][0]["sp"][1]].decode()
            rep = "if !(%s) { vx_panic(); }" % c
        elif name in ("assert_eq", "debug_assert_eq"):
            a = raw[m["args"][0]["sp"][0]:m["args"][0]["sp"][1]].decode(); b = raw[m["args"][1]["sp"][0]:m["args"][1]["sp"][1]].decode()
            rep = "if !(%s == %s) { vx_panic(); }" % (a, b)
        elif name in ("panic", "unreachable"):
            rep = "vx_panic()"
        elif name == "vec" and not (m.get("raw") or "").strip():
            continue   # `vec![]` inside a W10 pattern (replaced as a whole) or a plain empty vector (Verus knows vec!)
        elif name == "flatten":
            # W10: the macro must be the one-liner over into_iter().flatten().collect()
            import re as _re
            mdef = _re.search(r"macro_rules!\s*flatten\s*\{\s*\(\$array:expr\)\s*=>\s*\{\s*\$array\.into_iter\(\)\.flatten\(\)\.collect::<Vec<_>>\(\)\s*\};?\s*\}", tree["_text"])
            if not mdef: raise Undecided("lost anchor: macro_rules! flatten is not into_iter().flatten().collect::<Vec<_>>()")
            rep = "vx_flatten(%s)" % m["raw"].strip()
        else:
            raise Undecided("macro %s! in %s is outside the E1 subset" % (name, path))
        end = m["sp"][1]
        # statement macros: the span may include the trailing `;`
        txt = raw[m["sp"][0]:end].decode()
        if txt.rstrip().endswith(";") and not rep.endswith("}"): rep += ";"
        edits.append((m["sp"][0], end, rep))
    for m in extract.find_nodes(fn["body"], lambda n: n.get("k") == "mcall" and n["m"] in ("expect", "unwrap")):
        recv = raw[m["recv"]["sp"][0]:m["recv"]["sp"][1]].decode()
        # nested edits inside recv are not supported
        edits.append((m["sp"][0], m["sp"][1], "vx_unwrap(%s)" % recv))
    # proof insertions: "@@ proof <path> before|after `<text>` #n"
    for key, texts in spec.items():
        mm = re.match(r"proof (\S+) (before|after|after-stmt) `(.*)`(?: #(\d+))?$", key)
        if not mm or mm.group(1) != path: continue
        needle, nth = mm.group(3), int(mm.group(4) or 0)
        body_txt = raw[body0:hi].decode()
        pos, start = -1, 0
        for _ in range(nth + 1):
            pos = body_txt.find(needle, start)
            if pos < 0: raise Undecided("lost anchor: `%s` #%d in %s" % (needle, nth, path))
            start = pos + 1
        if mm.group(2) == "after-stmt":
            # after the statement that starts with the needle: up to and including the next `;`
            semi = body_txt.find(";", pos)
            if semi < 0: raise Undecided("lost anchor: end of statement `%s` in %s" % (needle, path))
            at = body0 + len(body_txt[:semi + 1].encode())
        else:
            at = body0 + len(body_txt[:pos].encode()) + (len(needle.encode()) if mm.group(2) == "after" else 0)
        edits.append((at, at, "\n" + "".join(texts).rstrip() + "\n"))
    for key, texts in spec.items():
        mm = re.match(r"proof (\S+) end-of-loop-body #(\d+)$", key)
        if not mm or mm.group(1) != path: continue
        lps = _loops(fn)
        k = int(mm.group(2))
        if k >= len(lps): raise Undecided("lost anchor: loop #%d of %s" % (k, path))
        at = lps[k]["body"]["sp"][1] - 1
        edits.append((at, at, "\n" + "".join(texts).rstrip() + "\n"))
    for key, texts in spec.items():
        mm = re.match(r"proof (\S+) after-loop #(\d+)$", key)
        if not mm or mm.group(1) != path: continue
        lps = _loops(fn)
        k = int(mm.group(2))
        if k >= len(lps): raise Undecided("lost anchor: loop #%d of %s" % (k, path))
        at = lps[k]["sp"][1]
        edits.append((at, at, "\n" + "".join(texts).rstrip() + "\n"))
    # apply (reject overlapping edits)
    edits.sort(key=lambda e: (e[0], e[1]))
    out, cur = [], lo
    for s, e, r in edits:
        if s < cur:
            raise Undecided("overlapping rewrites in %s" % path)
        out.append(raw[cur:s].decode()); out.append(r); cur = e
    out.append(raw[cur:hi].decode())
    text = "".join(out)
    selfp = [q for q in sig.get("params", []) if q.get("k") == "self"]
    if selfp and selfp[0].get("mut") and not selfp[0].get("ref"):
        # W11
        import re as _re
        head_len = len("".join(out[:1]))  # not used; split at the first `{` after the contract instead
        m0 = _re.search(r"\(\s*mut\s+self\b", text)
        if not m0: raise Undecided("W11: `mut self` not found in the signature text of %s" % path)
        text = text[:m0.start()] + "(self" + text[m0.end():]
        # body starts at the `{` that follows the spliced contract: it is the first `{` at brace depth 0 after the signature's `)`
        k0 = text.index("{", text.index(con.rstrip()) + len(con.rstrip()) if con.strip() else text.index(")"))
        body = _re.sub(r"\bself\b", "vx_self", text[k0 + 1:])
        text = text[:k0 + 1] + "\n        let mut vx_self = self;" + body
    return text


def transform_slice(tree, fn, label, from_needle, spec):
    """W16: a statement range of a function body - from the statement that starts with `from_needle` to the end of its enclosing block -
    wrapped as a function. The signature comes from the .vspec (`@@ header <label>`: the free variables of the range, with their types);
    the statements are verbatim apart from:
      W2  (assert!/expect/unwrap -> diverging stubs)
      W13 `for PAT in X { B }` over a local iterator variable X -> `loop { match X.next() { None => break, Some(PAT) => { B } } }`
          (the Rust reference's definition of `for`; IntoIterator::into_iter is the identity on an Iterator)
      W14 `E.take(N)` -> `vx_take(E, N)` (VxTake in the .vspec prelude: a verified copy of core::iter::Take::next)
      W15 `@@ replace <label> `<statement text>`` -> the given call of an external_body function (an ASSUMED contract, listed)"""
    raw = tree["_bytes"]
    T = lambda n: raw[n["sp"][0]:n["sp"][1]].decode()
    hit = None
    for blk in extract.find_nodes(fn["body"], lambda n: isinstance(n.get("stmts"), list)) + [fn["body"]]:
        for i, st in enumerate(blk["stmts"]):
            if T(st).lstrip().startswith(from_needle):
                if hit is not None and hit[0] is not blk: raise Undecided("ambiguous anchor `%s` in %s" % (from_needle, fn["path"]))
                if hit is None: hit = (blk, i)
    if hit is None: raise Undecided("lost anchor: statement `%s` in %s" % (from_needle, fn["path"]))
    blk, i0 = hit
    lo, hi = blk["stmts"][i0]["sp"][0], blk["stmts"][-1]["sp"][1]
    inside = lambda n: lo <= n["sp"][0] and n["sp"][1] <= hi
    edits = []
    loops = [l for l in _loops(fn) if inside(l)]
    for k, lp in enumerate(loops):
        inv = "".join(spec.get("loop %s #%d" % (label, k), []))
        if lp["k"] == "for" and lp["e"].get("k") == "path" and len(lp["e"]["segs"]) == 1 and ("desugar %s for #%d" % (label, k)) in spec:
            X = lp["e"]["segs"][0]
            pat = T(lp["pat"])
            edits.append((lp["hsp"][0], lp["hsp"][1], "loop\n%s\n" % inv.rstrip()))
            b0, b1 = lp["body"]["sp"]
            edits.append((b0, b0 + 1, "{ match %s.next() { None => break, Some(%s) => {" % (X, pat)))
            edits.append((b1 - 1, b1, "} } }"))
            continue
        if lp["k"] == "for": edits.append((lp["e"]["sp"][0], lp["e"]["sp"][0], "vx_it%d: " % k))
        if inv.strip(): edits.append((lp["hsp"][1], lp["hsp"][1], "\n" + inv.rstrip() + "\n"))
    for m in extract.find_nodes(blk, lambda n: n.get("k") == "mcall" and n["m"] == "take" and len(n["args"]) == 1 and inside(n)):
        edits.append((m["sp"][0], m["recv"]["sp"][0], "vx_take("))
        edits.append((m["recv"]["sp"][1], m["args"][0]["sp"][0], ", "))
    for m in extract.find_nodes(blk, lambda n: n.get("k") == "macro" and inside(n)):
        name = m["name"]
        if name in ("assert", "debug_assert"): rep = "if !(%s) { vx_panic(); }" % T(m["args"][0])
        elif name in ("assert_eq", "debug_assert_eq"): rep = "if !(%s == %s) { vx_panic(); }" % (T(m["args"][0]), T(m["args"][1]))
        elif name in ("panic", "unreachable"): rep = "vx_panic()"
        else: raise Undecided("macro %s! in the slice %s is outside the E1 subset" % (name, label))
        if T(m).rstrip().endswith(";") and not rep.endswith("}"): rep += ";"
        edits.append((m["sp"][0], m["sp"][1], rep))
    for m in extract.find_nodes(blk, lambda n: n.get("k") == "mcall" and n["m"] in ("expect", "unwrap") and inside(n)):
        edits.append((m["sp"][0], m["recv"]["sp"][0], "vx_unwrap("))
        edits.append((m["recv"]["sp"][1], m["sp"][1], ")"))
    text0 = raw[lo:hi].decode()
    for key, texts in spec.items():
        mm = re.match(r"replace (\S+) `(.*)`$", key, re.S)
        if mm and mm.group(1) == label:
            pos = text0.find(mm.group(2))
            if pos < 0: raise Undecided("lost anchor: statement `%s` in the slice %s" % (mm.group(2), label))
            at = lo + len(text0[:pos].encode())
            edits.append((at, at + len(mm.group(2).encode()), "".join(texts).strip()))
        mm = re.match(r"proof (\S+) (before|after|after-stmt) `(.*)`(?: #(\d+))?$", key)
        if mm and mm.group(1) == label:
            needle, nth = mm.group(3), int(mm.group(4) or 0)
            pos, start = -1, 0
            for _ in range(nth + 1):
                pos = text0.find(needle, start)
                if pos < 0: raise Undecided("lost anchor: `%s` #%d in the slice %s" % (needle, nth, label))
                start = pos + 1
            if mm.group(2) == "after-stmt":
                semi = text0.find(";", pos)
                at = lo + len(text0[:semi + 1].encode())
            else:
                at = lo + len(text0[:pos].encode()) + (len(needle.encode()) if mm.group(2) == "after" else 0)
            edits.append((at, at, "\n" + "".join(texts).rstrip() + "\n"))
        mm = re.match(r"proof (\S+) end-of-loop-body #(\d+)$", key)
        if mm and mm.group(1) == label:
            k = int(mm.group(2))
            if k >= len(loops): raise Undecided("lost anchor: loop #%d of the slice %s" % (k, label))
            at = loops[k]["body"]["sp"][1] - 1
            edits.append((at, at, "\n" + "".join(texts).rstrip() + "\n"))
    edits.sort(key=lambda e: (e[0], e[1]))
    out, cur = [], lo
    for s_, e_, r_ in edits:
        if s_ < cur: raise Undecided("overlapping rewrites in the slice %s" % label)
        out.append(raw[cur:s_].decode()); out.append(r_); cur = e_
    out.append(raw[cur:hi].decode())
    header = "".join(spec.get("header " + label, [])).rstrip()
    if not header: raise Undecided("no `@@ header %s` in the spec" % label)
    con = "".join(spec.get("fn " + label, [])).rstrip()
    pre = "".join(spec.get("slice-prologue " + label, [])).rstrip()
    post = "".join(spec.get("slice-epilogue " + label, [])).rstrip()
    return "%s\n%s\n{\n%s\n%s\n%s\n}\n" % (header, con, pre, "".join(out), post), raw[lo:hi].decode()


def transform_struct(tree, st):
    raw = tree["_bytes"]
    lo, hi = st["sp"]
    edits = [(a["sp"][0], a["sp"][1], "") for a in st.get("attrs", [])]
    if st.get("vis") is not None: edits.append((st["vis"][0], st["vis"][1], "pub"))
    else: edits.append((lo + len(b"".join([])), lo, ""))
    for f in st["fields"]:
        for a in f.get("attrs", []): edits.append((a["sp"][0], a["sp"][1], ""))
        if f.get("vis") is not None: edits.append((f["vis"][0], f["vis"][1], "pub"))
        else: edits.append((f["sp"][0], f["sp"][0], "pub "))
    edits = sorted(set(edits), key=lambda e: (e[0], e[1]))
    out, cur = [], lo
    for s, e, r in edits:
        if s < cur: continue
        out.append(raw[cur:s].decode()); out.append(r); cur = e
    out.append(raw[cur:hi].decode())
    txt = "".join(out)
    if not txt.lstrip().startswith("pub"): txt = "pub " + txt.lstrip()
    return txt


def assemble(spec_path, layout):
    """layout: list of ("struct", file, name) | ("impl", header, [(file, fnpath), ...]) | ("fn", file, fnpath) | ("text", key)"""
    spec = parse_vspec(spec_path)
    parts = ["use vstd::prelude::*;\nverus! {\n", "".join(spec.get("prelude", []))]
    slices = []
    for item in layout:
        if item[0] == "struct":
            tree = extract.vx_dump(extract.src_path(item[1]))
            st = extract.all_items(tree, "struct").get(item[2])
            if st is None: raise Undecided("lost anchor: struct %s" % item[2])
            parts.append(transform_struct(tree, st) + "\n")
            slices.append({"item": "struct " + item[2], "slice_sha": extract.sha(extract.text_of(tree, st))})
        elif item[0] == "struct_keep":
            # W7: a struct reduced to the fields the units under contract read (field names and types verbatim, generics dropped)
            _, file, name, newname, keep = item[:5]
            tysub = item[5] if len(item) > 5 else {}
            tree = extract.vx_dump(extract.src_path(file))
            st = extract.all_items(tree, "struct").get(name)
            if st is None: raise Undecided("lost anchor: struct %s" % name)
            have = {f["name"]: f for f in st["fields"]}
            miss = [k for k in keep if k not in have]
            if miss: raise Undecided("lost anchor: fields %r of struct %s" % (miss, name))
            parts.append("pub struct %s {\n%s}\n" % (newname, "".join("    pub %s: %s,\n" % (k, tysub.get(have[k]["ty"].replace(" ", ""), have[k]["ty"])) for k in keep)))
            slices.append({"item": "struct %s (fields %s)" % (name, ", ".join(keep)), "slice_sha": extract.sha(extract.text_of(tree, st))})
        elif item[0] == "impl":
            parts.append(item[1] + " {\n")
            # W12: associated consts of the same type are copied verbatim (functions under contract may read them)
            done_consts = set()
            for file, path in item[2]:
                tree = extract.vx_dump(extract.src_path(file))
                ty = path.split("::")[0]
                if (file, ty) in done_consts: continue
                done_consts.add((file, ty))
                def walk(items):
                    for it in items:
                        if it.get("k") == "impl" and it.get("self_name") == ty and not it.get("trait"):
                            for ii in it["items"]:
                                if ii.get("k") == "const":
                                    parts.append("    pub const %s: %s = %s;\n" % (ii["name"], ii["ty"], extract.text_of(tree, ii["e"])))
                        elif it.get("k") == "mod" and it.get("items"): walk(it["items"])
                walk(tree["items"])
            for file, path in item[2]:
                tree = extract.vx_dump(extract.src_path(file))
                fn = extract.find_fn(tree, path)
                parts.append(transform_fn(tree, fn, spec) + "\n")
                slices.append({"fn": "%s::%s" % (file[:-3].replace("/", "::"), path), "slice_sha": extract.sha(extract.text_of(tree, fn))})
            parts.append("}\n")
        elif item[0] == "fn":
            tree = extract.vx_dump(extract.src_path(item[1]))
            fn = extract.find_fn(tree, item[2])
            parts.append(transform_fn(tree, fn, spec) + "\n")
            slices.append({"fn": "%s::%s" % (item[1][:-3].replace("/", "::"), item[2]), "slice_sha": extract.sha(extract.text_of(tree, fn))})
        elif item[0] == "slice_fn":
            # ("slice_fn", file, fnpath, label, from_needle)
            _, file, path, label, needle = item
            tree = extract.vx_dump(extract.src_path(file))
            fn = extract.find_fn(tree, path)
            txt, src = transform_slice(tree, fn, label, needle, spec)
            parts.append(txt)
            slices.append({"fn": "%s::%s / statements from `%s` to the end of the enclosing block" % (file[:-3].replace("/", "::"), path, needle), "slice_sha": extract.sha(src)})
        elif item[0] == "text":
            parts.append("".join(spec.get(item[1], [])))
    parts.append("".join(spec.get("epilogue", [])))
    parts.append("\n} // verus!\nfn main() {}\n")
    return "".join(parts), slices, spec


def scan_assumptions(text):
    """Mechanical scan for trusted constructs in the assembled file."""
    out = []
    for kw in ("assume(", "admit(", "external_body", "assume_specification", "external_fn_specification", "#[verifier::external"):
        n = text.count(kw)
        if n: out.append("%s x%d" % (kw.rstrip("("), n))
    return out


def run(name, text, timeout=300, extra=()):
    from .extract import SCRATCH_TAG
    vdir = os.path.join(BUILD, "verus" + SCRATCH_TAG)
    os.makedirs(vdir, exist_ok=True)
    path = os.path.join(vdir, name + ".rs")
    with open(path, "w") as f: f.write(text)
    t0 = time.time()
    cmd = ["verus", path, "--output-json", "--time", "--num-threads", "8"] + list(extra)
    try:
        p = subprocess.run(cmd, capture_output=True, text=True, timeout=timeout, cwd=vdir)
        out, err, to = p.stdout, p.stderr, False
    except subprocess.TimeoutExpired as e:
        out, err, to = (e.stdout or b"").decode() if isinstance(e.stdout, bytes) else (e.stdout or ""), "", True
    dt = time.time() - t0
    js = None
    try:
        js = json.loads(out[out.index("{"):])
    except Exception:
        pass
    return {"path": path, "stdout": out, "stderr": err, "timeout": to, "time": dt, "json": js}


def results_per_function(prefix, r, text, fn_names, unit):
    """One Result per verified function (named by fn_names: verus function name -> obligation label)."""
    res = []
    js = r["json"]
    if r["timeout"] or js is None or "verification-results" not in (js or {}):
        det = (r["stderr"] or r["stdout"])[-2500:]
        return [Result("%s.%s" % (prefix, lbl), "E1", "undecided", r["time"], "verus", "verus did not produce a verdict: " + det, unit, file=r["path"]) for lbl in fn_names.values()]
    vr = js["verification-results"]
    err = r["stderr"]
    # map each error to the enclosing function by line number
    failed = {}
    lines = text.split("\n")
    fn_at = []
    cur = None
    for i, l in enumerate(lines):
        m = re.match(r"\s*(?:pub\s+)?(?:open\s+|closed\s+)?(?:proof\s+|spec\s+|exec\s+)?fn\s+(\w+)", l)
        if m: cur = m.group(1)
        fn_at.append(cur)
    for m in re.finditer(r"error(?:\[[^\]]*\])?: ([^\n]*)\n\s*--> [^:\n]*:(\d+):\d+", err):
        msg, ln = m.group(1), int(m.group(2))
        f = fn_at[min(ln - 1, len(fn_at) - 1)]
        if msg.startswith("aborting") : continue
        failed.setdefault(f, []).append("line %d: %s" % (ln, msg))
    hard = [x for fs in failed.values() for x in fs if not re.search(r"postcondition|precondition|invariant|assertion|decreases|overflow|underflow|arithmetic|index|bounds|recommend", x)]
    if hard or re.search(r"error\[E\d+\]", err):
        # compile / type / unsupported-feature errors are machinery trouble, never a refutation
        det = ("verus rejected the assembled file (not a proof failure): " + "; ".join(hard[:3]) + "\n" + err[-1500:])
        return [Result("%s.%s" % (prefix, lbl), "E1", "undecided", 0.0, "verus", det, unit, file=r["path"]) for lbl in fn_names.values()]
    total_t = (js.get("times-ms", {}) or {}).get("total", 0) / 1000.0 if isinstance(js.get("times-ms"), dict) else r["time"]
    per = max(0.01, r["time"] / max(1, len(fn_names)))
    if not vr.get("success", False) and not failed:
        det = err[-2500:]
        return [Result("%s.%s" % (prefix, lbl), "E1", "undecided", per, "verus", "verus error (not a proof failure): " + det, unit, file=r["path"]) for lbl in fn_names.values()]
    for vname, lbl in fn_names.items():
        if vname in failed:
            msgs = failed[vname]
            rl = any("rlimit" in x or "resource limit" in x or "timed out" in x for x in msgs)
            st = "undecided" if rl else "refuted"
            res.append(Result("%s.%s" % (prefix, lbl), "E1", st, per, "verus/z3", "\n".join(msgs) + "\n" + err[-1500:], unit, file=r["path"]))
        else:
            res.append(Result("%s.%s" % (prefix, lbl), "E1", "discharged", per, "verus/z3", "", unit, file=r["path"]))
    unknown = [f for f in failed if f not in fn_names]
    if unknown:
        res.append(Result("%s.unmapped_errors" % prefix, "E1", "undecided", 0.0, "verus", "errors in %r: %r" % (unknown, [failed[u] for u in unknown]), unit, file=r["path"]))
    return res
