"""Contract-strength audit: apply a property-breaking patch to a scratch copy of the repository (outside /repo and /verif),
run a check against it (VERIF_REPO), report whether the named obligation is refuted. The scratch copy and its build output are removed."""
import json, os, shutil, subprocess, sys, tempfile, hashlib
from .extract import VERIF, BUILD


def run_patch(patch_path, prop, tier="quick", keep=False, expect=None):
    tmp = tempfile.mkdtemp(prefix="verif-audit-", dir="/tmp")
    repo = os.path.join(tmp, "repo")
    os.makedirs(repo)
    try:
        p = subprocess.run("git -C /repo archive HEAD | tar -x -C %s" % repo, shell=True, capture_output=True, text=True)
        if p.returncode != 0: return {"error": "archive failed: " + p.stderr}
        # uncommitted changes of /repo's working tree are part of 'the current tree'
        d = subprocess.run(["git", "-C", "/repo", "diff", "HEAD"], capture_output=True, text=True).stdout
        if d.strip():
            subprocess.run(["git", "apply", "--directory", repo, "-"], input=d, text=True, cwd="/")
        subprocess.run(["git", "init", "-q"], cwd=repo)
        a = subprocess.run(["git", "apply", "--whitespace=nowarn", patch_path], cwd=repo, capture_output=True, text=True)
        if a.returncode != 0: return {"error": "patch does not apply: " + a.stderr[-400:]}
        env = dict(os.environ, VERIF_REPO=repo, VERIF_EVIDENCE_DIR=os.path.join(tmp, "evidence"), VERIF_REPLAY_DIR=os.path.join(tmp, "replays"))
        c = subprocess.run([os.path.join(VERIF, "check"), prop, "--tier", tier], cwd=VERIF, env=env, capture_output=True, text=True)
        out = c.stdout
        refuted = [l.split()[1] + " " + l.split()[2] for l in out.splitlines() if l.strip().startswith("REFUTED")]
        viol = [l for l in out.splitlines() if l.startswith("VIOLATION")]
        return {"patch": os.path.basename(patch_path), "property": prop, "exit": c.returncode, "refuted": refuted, "violation_lines": viol,
                "tail": out[-1500:] if c.returncode not in (0, 1) else ""}
    finally:
        tag = "-" + hashlib.sha256(repo.encode()).hexdigest()[:8]
        import glob
        for d in glob.glob(os.path.join(BUILD, "*" + tag)) + glob.glob(os.path.join(BUILD, "*" + tag + "-*")):
            (os.remove(d) if os.path.isfile(d) else shutil.rmtree(d, ignore_errors=True))
        if not keep: shutil.rmtree(tmp, ignore_errors=True)


def main(argv):
    patch, prop = argv[0], argv[1]
    tier = argv[2] if len(argv) > 2 else "quick"
    r = run_patch(os.path.abspath(patch), prop, tier)
    print(json.dumps(r, indent=1))
    return 0 if r.get("exit") == 1 else 1


if __name__ == "__main__":
    sys.exit(main(sys.argv[1:]))
