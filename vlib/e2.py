"""Helpers to write E2 contracts: symbolic inputs, running a real function, packaging obligations."""
from . import terms as tm, symex, extract
from .terms import Var, Const, And, Or, Not, Eq, Lt, Le, Ge, Gt, Ite, Implies, TRUE
from .symex import Vec, Struct, Arr, Opt, Enum, Tup, SymArr
from .smt import Obligation

R0 = Const(0, "Real")


def vec(name, n=3):
    return Vec([Var("%s_%s" % (name, "xyzw"[i]), "Real", "f64") for i in range(n)])


def real(name): return Var(name, "Real", "f64")
def integer(name, mty="usize"): return Var(name, "Int", mty)
def boolean(name): return Var(name, "Bool")
def plane(name): return Struct("Plane", {"n": vec(name + "_n"), "p": vec(name + "_p")})
def dot(a, b): return tm.Sum([x * y for x, y in zip(a.c, b.c)])
def cross(a, b):
    p, q = a.c, b.c
    return Vec([p[1] * q[2] - q[1] * p[2], p[2] * q[0] - q[2] * p[0], p[0] * q[1] - q[0] * p[1]])
def sub(a, b): return Vec([x - y for x, y in zip(a.c, b.c)])
def add(a, b): return Vec([x + y for x, y in zip(a.c, b.c)])
def scale(s, a): return Vec([s * x for x in a.c])
def norm2(a): return dot(a, a)
def veq(a, b): return And(*[Eq(x, y) for x, y in zip(a.c, b.c)])
def vnonzero(a): return Or(*[tm.Ne(x, R0) for x in a.c])
def det3(a, b, c): return dot(c, cross(a, b))


def dim_enum(name="dim"):
    t = Var(name, "Int")
    return Enum("Dimensionality", ["OneD", "TwoD", "ThreeD"], t), [Le(Const(0, "Int"), t), Le(t, Const(2, "Int"))]


def option(name, payload):
    return Opt(Var(name + "_some", "Bool"), payload)


class Unit:
    """One function (or statement slice) of the real source under an E2 contract."""
    def __init__(self, file, path, label=None):
        self.file, self.path = file, path
        self.tree = extract.vx_dump(extract.src_path(file))
        self.fn = extract.find_fn(self.tree, path)
        self.text = extract.text_of(self.tree, self.fn)
        self.sha = extract.sha(self.text)
        self.label = label or "%s::%s" % (file[:-3].replace("/", "::"), path)

    def resolver(self, extra_files=()):
        trees = [self.tree] + [extract.vx_dump(extract.src_path(f)) for f in extra_files]
        tables = [extract.all_fns(t) for t in trees]
        def look(tbs, name):
            for tb in tbs:
                if name in tb: return tb[name]
                # trait impl methods are stored as Type::m@Trait
                for k, v in tb.items():
                    if k.split("@")[0] == name: return v
            return None
        rest = []
        def res(name):
            r = look(tables, name)
            if r is not None: return r
            # fallback: any other source file of the crate (a helper extracted into another module is still the real code)
            if not rest:
                import glob, os
                root = os.path.join(extract.REPO, "src")
                have = {self.file} | set(extra_files)
                for f in sorted(glob.glob(os.path.join(root, "**", "*.rs"), recursive=True)):
                    rel = os.path.relpath(f, root)
                    if rel in have or rel.endswith("verif_hooks.rs"): continue
                    try: rest.append(extract.all_fns(extract.vx_dump(f)))
                    except Exception: pass
            return look(rest, name)
        return res

    def auto_consts(self, extra_files=()):
        """Associated consts with literal initialisers (e.g. HalfSpace::EPSILON), read from the source."""
        out = {}
        for f in (self.file,) + tuple(extra_files):
            tree = extract.vx_dump(extract.src_path(f))
            def walk(items):
                for it in items:
                    if it.get("k") == "impl":
                        for ii in it["items"]:
                            if ii.get("k") == "const" and ii["e"].get("k") == "lit" and ii["e"]["ty"] in ("float", "int"):
                                sort = "Real" if ii["e"]["ty"] == "float" or "f64" in ii["ty"] else "Int"
                                out["%s::%s" % (it["self_name"], ii["name"])] = Const(tm.Fraction(ii["e"]["v"]) if sort == "Real" else int(ii["e"]["v"]), sort)
                            elif ii.get("k") == "const" and not it.get("trait") and ii["e"].get("k") in ("struct", "call", "mcall", "path", "unary", "binary"):
                                # any other initialiser (e.g. Sphere::EMPTY = Sphere { center: DVec3::ZERO, radius: 0. }): evaluated where it is read
                                out.setdefault("%s::%s" % (it["self_name"], ii["name"]), ("constexpr", ii["e"], it["self_name"]))
                    elif it.get("k") == "mod" and it.get("items"): walk(it["items"])
            walk(tree["items"])
        return out

    def run(self, inputs, ctx=None, extra_files=(), contracts=None, consts=None, features=None, n_stmts=None):
        ctx = ctx or symex.Ctx()
        consts = dict(self.auto_consts(extra_files), **(consts or {}))
        ctx.resolver = self.resolver(extra_files)
        if contracts: ctx.contracts.update(contracts)
        return symex.run_function(self.fn, inputs, ctx, consts=consts, features=features, n_stmts=n_stmts)


def isolated(unit_label, shape=None):
    """Decorator for an obligation-group generator `f(prefix, ..)`: if the unit's annotated shape no longer fits the source (Undecided) or the
    source left the evaluator's subset (Unsupported), the group is replaced by one LostUnit pseudo-obligation (undecided), shaped like the
    group's normal return value, instead of aborting the whole check."""
    from .smt import LostUnit
    shape = shape or (lambda o: ([o], []))
    def deco(fn):
        def wrapper(prefix, *a, **k):
            try:
                return fn(prefix, *a, **k)
            except (extract.Undecided, symex.Unsupported) as e:
                return shape(LostUnit("%s.%s.unit_not_evaluated" % (prefix, unit_label), "%s: %s" % (type(e).__name__, e), unit_label))
        wrapper.__name__ = fn.__name__; wrapper.__doc__ = fn.__doc__
        return wrapper
    return deco


def has_havoc(terms):
    """Does a value depend on something the tolerant evaluator replaced by an unconstrained variable?"""
    return any(k.startswith("havoc_") for k in tm.free_vars([t for t in terms if isinstance(t, tm.T)]))


def run_until_call(unit, inputs, stop_calls, extra_files=(), consts=None, contracts=None, self_ty=None):
    """TOLERANT run of a function body from its first statement up to the first call of one of `stop_calls` (resolved names such
    as "SimulationBoundary::cuboid"). Statements outside the evaluator's subset are skipped with every value they may write
    replaced by an unconstrained one (symex.Havoc). Returns (name, args at the call, env at the call, ctx); raises Undecided if
    the call is never reached (lost anchor)."""
    ctx = symex.Ctx()
    ctx.resolver = unit.resolver(extra_files)
    if contracts: ctx.contracts.update(contracts)
    box = {}
    def hook(name):
        def h(interp, env, node, args):
            box["hit"] = (name, list(args), symex.Env(ctx, dict(env.vars), env.pc, env.self_ty))
            raise symex.StopExecution(name)
        return h
    for nm in stop_calls: ctx.contracts[nm] = hook(nm)
    it = symex.Interp(ctx, dict(unit.auto_consts(extra_files), **(consts or {})))
    it.tolerant = True
    fn = unit.fn
    it.note_params(fn)
    if self_ty is None and "::" in fn["path"]: self_ty = fn["path"].split("::")[0]
    env = symex.Env(ctx, {}, TRUE, self_ty)
    for p in fn["sig"]["params"]:
        if p["k"] == "self": env.vars["self"] = inputs["self"]
        else:
            pat = p["pat"]
            while pat["k"] == "ptype": pat = pat["pat"]
            env.vars[pat["name"]] = inputs[pat["name"]]
    try:
        it.exec_block(env, fn["body"])
    except symex.StopExecution:
        pass
    if "hit" not in box:
        raise extract.Undecided("lost anchor: no call of %s reached in %s (skipped: %r)" % (" / ".join(stop_calls), unit.label, ctx.havocs[-3:]))
    name, args, env_at = box["hit"]
    return name, args, env_at, ctx


def definedness(prefix, unit, pre, ctx, obs, allow_panic=True):
    """Side obligations generated by the evaluator: divisions by non-zero, sqrt of non-negative, overflow."""
    side = [Implies(o.pc, o.cond) for o in ctx.obls]
    if side:
        obs.append(Obligation(prefix + ".defined", pre + ctx.assume + ctx.ok, And(*side), unit.label,
                              note="%d division/sqrt/overflow sites: %s" % (len(side), sorted({o.kind for o in ctx.obls}))))
    if not allow_panic and ctx.panics:
        obs.append(Obligation(prefix + ".no_panic", pre, And(*[Implies(o.pc, o.cond) for o in ctx.panics]), unit.label))


def ensure(obs, prefix, name, unit, pre, ctx, goal, timeout=None, note="", optional=False):
    o = Obligation("%s.%s" % (prefix, name), pre + ctx.assume + ctx.ok, goal, unit.label, note=note, timeout=timeout)
    o.optional = optional
    obs.append(o)
    return o


def guard(obs, prefix, unit, pre, ctx):
    obs.append(Obligation(prefix + ".requires_satisfiable", pre + ctx.assume + ctx.ok, TRUE, unit.label, expect_sat=True))


def eval_float(term_or_val, ctx, env):
    """Float evaluation of a symbolic value under env (inputs), defining sqrt / sign-at-zero fresh variables on the way."""
    import math
    env = dict(env)
    for (_, arg), s in getattr(ctx, "_sqrt", {}).items():
        pass
    # fresh vars in creation order: compute sqrt vars lazily by fixpoint (few of them)
    pending = dict(((s.args[0]), arg) for (_, arg), s in getattr(ctx, "_sqrt", {}).items())
    for _ in range(len(pending) + 1):
        for name, arg in list(pending.items()):
            try:
                v = tm.evaluate(arg, env, exact=False)
            except KeyError:
                continue
            env[name] = math.sqrt(v) if v >= 0 else math.nan
            del pending[name]
    class D(dict):
        def __missing__(self, k):
            if k.startswith("sgn0"): return 1.0
            raise KeyError(k)
    env = D(env)
    def ev(v):
        if isinstance(v, tm.T): return tm.evaluate(v, env, exact=False)
        if isinstance(v, Vec): return [ev(c) for c in v.c]
        if isinstance(v, Struct): return {k: ev(x) for k, x in v.f.items()}
        if isinstance(v, (Arr, Tup)): return [ev(x) for x in v.e]
        raise TypeError(type(v))
    return ev(term_or_val)


def close(a, b, tol=1e-9):
    import math
    if isinstance(a, (list, tuple)): return all(close(x, y, tol) for x, y in zip(a, b))
    if isinstance(a, bool) or isinstance(b, bool): return bool(a) == bool(b)
    if a is None: a = math.nan      # serde_json writes NaN / inf as null
    if b is None: b = math.nan
    if math.isnan(a) or math.isnan(b): return math.isnan(a) and math.isnan(b)
    return abs(a - b) <= tol * max(1.0, abs(a), abs(b))
