"""C16 — the safety radius: the three mechanisms (radius per vertex in the active subspace, 2 * max after every change, termination test)."""
from . import dims, e3sets, faces
from .. import smt, runner, kani, extract
from ..smt import Obligation
from ..terms import Const

CC = "voronoi/convex_cell.rs"


def update_sites(prefix):
    """update_safety_radius is called after the vertex set was (re)built: last statement of the `if num_r > 0` block of clip_by_plane
    (after all Vertex::from_dual pushes) and in init between constructing the cell and returning it. Syntactic."""
    tree = extract.vx_dump(extract.src_path(CC))
    obs = []
    is_upd = lambda n: n.get("k") == "mcall" and n["m"] == "update_safety_radius"
    clip = extract.find_fn(tree, "ConvexCell::clip_by_plane")
    ifs = [n for n in extract.find_nodes(clip["body"], lambda n: n.get("k") == "if") if extract.text_of(tree, n["c"]).replace(" ", "") == "num_r>0"]
    ok = False
    if len(ifs) == 1:
        st = ifs[0]["then"]["stmts"]
        last = st[-1].get("e") if st else None
        pushes = extract.find_nodes(ifs[0]["then"], lambda n: n.get("k") == "mcall" and n["m"] == "push" and "from_dual" in extract.text_of(tree, n))
        ok = last is not None and is_upd(last) and len(pushes) == 1 and pushes[0]["sp"][1] <= last["sp"][0]
        # no vertex is created or removed outside that block after the loop
    obs.append(Obligation(prefix + ".update_sites.clip_by_plane_updates_radius_after_rebuilding_vertices", [], Const(bool(ok)), "voronoi::convex_cell::ConvexCell::clip_by_plane", note="syntactic"))
    init = extract.find_fn(tree, "ConvexCell::init")
    st = init["body"]["stmts"]
    ok2 = len(st) >= 2 and st[-2].get("e") is not None and is_upd(st[-2]["e"]) and extract.text_of(tree, st[-1]).strip() == "cell"
    obs.append(Obligation(prefix + ".update_sites.init_updates_radius_before_returning_the_cell", [], Const(bool(ok2)), "voronoi::convex_cell::ConvexCell::init", note="syntactic"))
    # the only writer of safety_radius besides the constructor is update_safety_radius
    writers = []
    for name, fn in extract.all_fns(tree).items():
        for a in extract.find_nodes(fn["body"], lambda n: n.get("k") in ("assign", "opassign")):
            if "safety_radius" in extract.text_of(tree, a["l"]): writers.append(name)
    obs.append(Obligation(prefix + ".update_sites.update_safety_radius_is_the_only_writer", [], Const(writers == ["ConvexCell::update_safety_radius"]),
                          "voronoi::convex_cell", note="syntactic: writers = %r" % writers))
    return obs


def run(tier, seed):
    obs, units = dims.from_dual_obligations("C16")
    fns = [{"fn": u.label, "slice_sha": u.sha} for u in units]
    o2, m2 = faces.bisector_obligations("C16")
    obs += [x for x in o2 if "returns_iff_safety_radius" in x.name or x.name.endswith("bisector.defined") or x.expect_sat]; fns.append(m2)
    obs += update_sites("C16")
    smt.discharge_all(obs, tier)
    results = [runner.from_smt(o) for o in obs]
    results += kani.run_specs("C16", e3sets.SAFETY, tier)
    fns.append({"fn": e3sets.U_SAFETY, "backend": "Kani on the real crate (bounded)"})
    meta = {
        "level": "proof", "functions": fns,
        "assumptions": ["A-REAL for the E2 obligations", e3sets.A_SQRT,
                        "update_safety_radius is an iterator chain (map / max_by): outside E1/E2, checked by a BOUNDED Kani harness (3 vertices quick, 4 thorough) - never counted as proved",
                        "NOT decided: that the farthest point of a convex cell from its generator is a vertex, and the security-radius theorem ('generators farther away than "
                        "the radius do not change the cell') - mathematics about convex polytopes, not about a function of this crate"],
        "trusted_base": ["vx (syn 2 dump)", "vlib/symex.py", "z3 4.8.12 / z3 5.1 / cvc5 1.0", "Kani 0.68 / CBMC 6.11"],
        "explanation": "radius2 of every vertex is the squared distance to the generator in the active subspace (Vertex::from_dual, all inputs); the neighbour loop returns exactly "
                       "when safety_radius < distance to the next neighbour and clips otherwise; safety_radius is written only by update_safety_radius, which runs after every "
                       "rebuild of the vertex set; update_safety_radius = 2 * sqrt(max radius2) >= 2 * every vertex distance (bounded).",
    }
    return results, meta
