"""C16 — the safety radius: the three mechanisms (radius per vertex in the active subspace, 2 * max after every change, termination test)."""
from . import dims, e3sets, faces
from .. import smt, runner, kani, extract
from ..smt import Obligation
from ..terms import Const

CC = "voronoi/convex_cell.rs"


def update_sites(prefix):
    """update_safety_radius is called after the vertex set was (re)built: last statement of the `if num_r > 0` block of clip_by_plane
    (after all Vertex::from_dual pushes) and in init between constructing the cell and returning it. Syntactic."""
    tree = extract.vx_dump(extract.src_path(CC))
    obs = []
    is_upd = lambda n: n.get("k") == "mcall" and n["m"] == "update_safety_radius"
    clip = extract.find_fn(tree, "ConvexCell::clip_by_plane")
    ifs = [n for n in extract.find_nodes(clip["body"], lambda n: n.get("k") == "if") if extract.text_of(tree, n["c"]).replace(" ", "") == "num_r>0"]
    ok = False
    if len(ifs) == 1:
        st = ifs[0]["then"]["stmts"]
        last = st[-1].get("e") if st else None
        pushes = extract.find_nodes(ifs[0]["then"], lambda n: n.get("k") == "mcall" and n["m"] == "push" and "from_dual" in extract.text_of(tree, n))
        ok = last is not None and is_upd(last) and len(pushes) == 1 and pushes[0]["sp"][1] <= last["sp"][0]
        # no vertex is created or removed outside that block after the loop
    obs.append(Obligation(prefix + ".update_sites.clip_by_plane_updates_radius_after_rebuilding_vertices", [], Const(bool(ok)), "voronoi::convex_cell::ConvexCell::clip_by_plane", note="syntactic"))
    init = extract.find_fn(tree, "ConvexCell::init")
    st = init["body"]["stmts"]
    ok2 = len(st) >= 2 and st[-2].get("e") is not None and is_upd(st[-2]["e"]) and extract.text_of(tree, st[-1]).strip() == "cell"
    obs.append(Obligation(prefix + ".update_sites.init_updates_radius_before_returning_the_cell", [], Const(bool(ok2)), "voronoi::convex_cell::ConvexCell::init", note="syntactic"))
    # the only writer of safety_radius besides the constructor is update_safety_radius
    writers = []
    for name, fn in extract.all_fns(tree).items():
        for a in extract.find_nodes(fn["body"], lambda n: n.get("k") in ("assign", "opassign")):
            if "safety_radius" in extract.text_of(tree, a["l"]): writers.append(name)
    obs.append(Obligation(prefix + ".update_sites.update_safety_radius_is_the_only_writer", [], Const(writers == ["ConvexCell::update_safety_radius"]),
                          "voronoi::convex_cell", note="syntactic: writers = %r" % writers))
    return obs


def run(tier, seed):
    obs, units = dims.from_dual_obligations("C16")
    fns = [{"fn": u.label, "slice_sha": u.sha} for u in units]
    o2, m2 = faces.bisector_obligations("C16")
    obs += [x for x in o2 if "returns_iff_safety_radius" in x.name or x.name.endswith("bisector.defined") or x.expect_sat]; fns.append(m2)
    obs += update_sites("C16")
    got, lost = runner.unit_or_undecided("C16.init.unit_not_evaluated", "E2", "voronoi::convex_cell::ConvexCell::init", lambda: init_obligations("C16"))
    if got is not None:
        o3, u3 = got; obs += o3; fns += [{"fn": x.label + " (whole function, update_safety_radius inlined)", "slice_sha": x.sha} for x in u3]
    smt.discharge_all(obs, tier)
    results = [runner.from_smt(o) for o in obs] + lost
    # bounded stand-in on the real crate: cells that are never clipped (one generator) are the box, so their farthest corner is known
    class _O: model = {}
    rr = replay_radius(_O())
    results.append(runner.Result("C16.bounded.real_unclipped_cells_report_at_least_twice_the_distance_to_their_farthest_corner", "R", "refuted" if rr["reproduced"] else "discharged", 0.0, "replay",
                                 repr(rr)[:2000] if rr["reproduced"] else "", "Voronoi::build with a single generator (public API, real crate)",
                                 bounded="27 single-generator tessellations (1D/2D/3D, off-centre generators, non-cubic boxes at the origin and 1e5 / 3e7 away from it)",
                                 counterexample=rr if rr["reproduced"] else None, replay={"reproduced": rr["reproduced"], "mismatch": rr.get("runs")}))
    results += kani.run_specs("C16", e3sets.SAFETY, tier)
    fns.append({"fn": e3sets.U_SAFETY, "backend": "Kani on the real crate (bounded)"})
    meta = {
        "level": "proof", "functions": fns,
        "assumptions": ["A-REAL for the E2 obligations", e3sets.A_SQRT,
                        "update_safety_radius is an iterator chain (map / max_by): outside E1/E2, checked by a BOUNDED Kani harness (3 vertices quick, 4 thorough) - never counted as proved",
                        "NOT decided: that the farthest point of a convex cell from its generator is a vertex, and the security-radius theorem ('generators farther away than "
                        "the radius do not change the cell') - mathematics about convex polytopes, not about a function of this crate"],
        "trusted_base": ["vx (syn 2 dump)", "vlib/symex.py", "z3 4.8.12 / z3 5.1 / cvc5 1.0", "Kani 0.68 / CBMC 6.11"],
        "explanation": "radius2 of every vertex is the squared distance to the generator in the active subspace (Vertex::from_dual, all inputs); the neighbour loop returns exactly "
                       "when safety_radius < distance to the next neighbour and clips otherwise; safety_radius is written only by update_safety_radius, which runs after every "
                       "rebuild of the vertex set; update_safety_radius = 2 * sqrt(max radius2) >= 2 * every vertex distance (bounded).",
    }
    meta["assumptions"] = list(meta["assumptions"]) + kani.scan_assumptions()
    return results, meta


def init_obligations(prefix):
    """ConvexCell::init, run symbolically as a whole (eight Vertex::from_dual calls, ConvexCell::new, update_safety_radius with the iterator
    chain map / max_by unrolled over the eight vertices by std's fold semantics): the initial safety radius is twice the largest vertex distance."""
    from .. import symex, terms as tm
    from ..terms import Var, And, Or, Eq, Ge, Le, Implies, TRUE
    from ..symex import Struct, SymArr, Vec
    from ..e2 import Unit, vec, real, dim_enum, R0
    from . import faces as F
    XF = ("voronoi/half_space.rs", "geometry.rs", "voronoi/generator.rs", "voronoi/boundary.rs")
    u = Unit(CC, "ConvexCell::init")
    dim, dimc = dim_enum()
    planes = F.sym_cell("bd")[1]
    planes.length = Var("n_planes", "Int", "usize")
    sb = Struct("SimulationBoundary", {"clipping_planes": planes, "dimensionality": dim})
    loc = vec("loc")
    vl = []
    def intersect_contract(interp, env, node, args):
        v = vec("vloc%d" % len(vl)); vl.append(v); return v
    ctx = symex.Ctx()
    ctx.contracts["intersect_planes"] = intersect_contract
    ctx.contracts["SimpleCycle::new"] = lambda interp, env, node, args: Struct("SimpleCycle", {})
    r, env, ctx, it = u.run({"loc": loc, "idx": Var("idx", "Int", "usize"), "simulation_boundary": sb}, ctx, extra_files=XF)
    if len(vl) != 8 or not isinstance(r, Struct) or "safety_radius" not in r.f: raise extract.Undecided("lost anchor: ConvexCell::init builds eight vertices and returns the cell")
    verts = r.f["vertices"]
    sr = r.f["safety_radius"]
    r2 = [v.f["radius2"] for v in verts.e]
    pre = dimc + [Ge(planes.length, tm.Const(6, "Int"))]
    P = pre + ctx.assume + ctx.ok
    four = tm.Const(4, "Real")
    obs = [Obligation(prefix + ".init.requires_satisfiable", P, TRUE, u.label, expect_sat=True)]
    obs.append(Obligation(prefix + ".init.safety_radius_is_at_least_twice_every_vertex_distance", P, And(Ge(sr, R0), *[Ge(sr * sr, four * x) for x in r2]), u.label, timeout=240, replay=replay_radius,
                          note="radius2 of each vertex is its squared distance in the active subspace (from_dual contract)"))
    return obs, [u]


def replay_radius(ob):
    """Cells that are never (or rarely) clipped, through the public API: the reported safety radius must be at least twice the distance from
    the generator to every corner of its cell - for a single generator in a reflective box the cell is the box, so the corners are known."""
    from ..runner import replay_requests
    reqs = []
    for d in (3, 2, 1):
        for off in (0.0, 1.0e5, -3.0e7):        # boxes far from the origin too: the radius must not depend on where the box sits
            for g in ([0.1, 0.9, 0.5], [0.5, 0.5, 0.5], [0.85, 0.2, 0.1]):
                w = [1.0, 2.0 if d >= 2 else 1.0, 1.5 if d == 3 else 1.0]
                an = [off, off if d >= 2 else 0.0, off if d == 3 else 0.0]
                gg = [an[0] + g[0] * w[0], an[1] + g[1] * w[1] if d >= 2 else 0.0, an[2] + g[2] * w[2] if d == 3 else 0.0]
                reqs.append({"op": "build", "gens": [gg], "anchor": an, "width": w, "dim": d})
    bad = []
    for rq, a in zip(reqs, replay_requests(reqs, timeout=120)):
        if "cells" not in a: continue
        g, w, d, an = rq["gens"][0], rq["width"], rq["dim"], rq["anchor"]
        far = sum(max(g[i] - an[i], an[i] + w[i] - g[i]) ** 2 for i in range(d)) ** 0.5
        sr = a["cells"][0]["safety_radius"]
        if not sr >= 2 * far * (1 - 1e-7): bad.append({"request": rq, "reported_safety_radius": sr, "twice_the_distance_to_the_farthest_corner": 2 * far})
    return {"reproduced": bool(bad), "runs": bad[:2], "what": "reported safety radius of a single-generator cell is below twice the distance to its farthest corner"}
