"""C12 — cell-face connectivity is a consistent index structure (E1: Verus on Voronoi::finalize, mechanically de-sugared; E2 on neighbour_ids)."""
import os
from .. import verus, runner, extract, smt
from ..runner import Result

SPEC = os.path.join(extract.VERIF, "contracts", "c12.vspec")
VF, VC, VO, IN = "voronoi/voronoi_face.rs", "voronoi/voronoi_cell.rs", "voronoi.rs", "voronoi/integrals.rs"
LAYOUT = [
    ("struct_keep", IN, "FaceIntegrator", "VxFaceIntegrator", ["left", "right", "shift"]),
    ("struct_keep", VF, "VoronoiFace", "VoronoiFace", ["inner"], {"FaceIntegrator<VoronoiFaceIntegral>": "VxFaceIntegrator"}),
    ("struct", VC, "VoronoiCell"),
    ("struct_keep", VO, "Voronoi", "Voronoi", ["voronoi_cells", "faces", "cell_face_connections"]),
    ("text", "text specs"),
    ("impl", "impl VoronoiFace", [(VF, "VoronoiFace::left"), (VF, "VoronoiFace::right"), (VF, "VoronoiFace::shift"),
                                  (VF, "VoronoiFace::is_periodic"), (VF, "VoronoiFace::is_boundary")]),
    ("impl", "impl VoronoiCell", [(VC, "VoronoiCell::finalize"), (VC, "VoronoiCell::face_connections_offset"), (VC, "VoronoiCell::face_count")]),
    ("impl", "impl Voronoi", [(VO, "Voronoi::finalize")]),
]
FNS = {
    "finalize": "finalize.VoronoiCell_finalize_frame_and_Voronoi_finalize_lists_offsets_flattening",
    "left": "VoronoiFace_left.contract", "right": "VoronoiFace_right.contract", "shift": "VoronoiFace_shift.contract",
    "is_periodic": "VoronoiFace_is_periodic.contract", "is_boundary": "VoronoiFace_is_boundary.contract",
    "face_connections_offset": "VoronoiCell_face_connections_offset.contract", "face_count": "VoronoiCell_face_count.contract",
    "lemma_flat_take_step": "lemma.flat_take_step", "lemma_flat_take_le": "lemma.flat_take_le", "lemma_flat_slice": "lemma.slice_of_flattened_array_is_the_cells_list",
    "lemma_cell_list_members": "lemma.face_in_list_iff_left_or_unshifted_right",
    "theorem_connectivity_is_consistent": "theorem.connectivity_is_a_consistent_index_structure",
}
UNIT = "voronoi::Voronoi::finalize, voronoi_cell::VoronoiCell::finalize, voronoi_face::VoronoiFace accessors (Verus; W8-W11 de-sugaring)"


def check_structure(ans):
    """The property's sentences, evaluated on a tessellation returned by the real crate (replay JSON)."""
    cells, faces, conn = ans["cells"], ans["faces"], ans["connections"]
    off = 0
    for c, cell in enumerate(cells):
        if cell["offset"] != off: return "cell %d: offset %d is not the prefix sum %d" % (c, cell["offset"], off)
        want = []
        for i, f in enumerate(faces):
            if f["left"] == c: want.append(i)
            if f["right"] == c and f["shift"] is None: want.append(i)
        got = conn[off:off + cell["count"]]
        if got != want or cell["face_indices"] != want: return "cell %d lists faces %r, the property demands %r" % (c, got, want)
        nb = []
        for i in want:
            f = faces[i]
            if f["right"] is None or f["shift"] is not None: continue
            nb.append(f["right"] if f["left"] == c else f["left"])
        if cell["neighbours"] != nb: return "cell %d: neighbour_ids yields %r, the other sides of its listed faces are %r" % (c, cell["neighbours"], nb)
        if c in cell["neighbours"]: return "cell %d: neighbour_ids yields the cell itself" % c
        off += cell["count"]
    if off != len(conn): return "total %d != array length %d" % (off, len(conn))
    return None


def bounded_search(tier):
    """Counterexample finder for refuted E1 obligations and a bounded stand-in: every mask over small 1D/2D generator sets, through the public API of the real crate."""
    import itertools
    from ..runner import replay_requests
    sets = [(1, [[0.1, 0, 0], [0.3, 0, 0], [0.6, 0, 0], [0.9, 0, 0]]),
            (2, [[0.2, 0.2, 0], [0.7, 0.3, 0], [0.4, 0.8, 0], [0.8, 0.75, 0], [0.5, 0.5, 0]])]
    # tiny periodic sets: a cell borders periodic images of itself (faces with right == left and a shift)
    sets += [(1, [[0.3, 0, 0]]), (1, [[0.2, 0, 0], [0.7, 0, 0]]), (2, [[0.3, 0.6, 0]]), (2, [[0.2, 0.3, 0], [0.7, 0.6, 0]]), (3, [[0.3, 0.4, 0.6]]),
             (3, [[0.2, 0.3, 0.4], [0.7, 0.6, 0.8]]), (3, [[0.2, 0.3, 0.4], [0.7, 0.6, 0.8], [0.5, 0.1, 0.9]])]
    reqs = []
    for dim, gens in sets:
        for periodic in (False, True):
            for mask in itertools.product([True, False], repeat=len(gens)):
                if not any(mask): continue
                reqs.append({"op": "build", "gens": gens, "mask": list(mask), "anchor": [0, 0, 0], "width": [1, 1, 1], "dim": dim, "periodic": periodic})
    ans = replay_requests(reqs, timeout=600)
    for rq, a in zip(reqs, ans):
        if "cells" not in a: return len(reqs), {"request": rq, "real": a, "what": "build failed"}
        bad = check_structure(a)
        if bad: return len(reqs), {"request": rq, "what": bad, "cells": [{k: c[k] for k in ("offset", "count", "face_indices", "neighbours")} for c in a["cells"]],
                                   "faces": [{k: f[k] for k in ("left", "right", "shift")} for f in a["faces"]]}
    return len(reqs), None


def run(tier, seed):
    fns = dict(FNS)
    fns["witness_contracts_are_satisfiable"] = "witness.contracts_are_satisfiable"
    try:
        text, slices, spec = verus.assemble(SPEC, LAYOUT)
        r = verus.run("c12", text, timeout=300 if tier == "quick" else 900)
        results = verus.results_per_function("C12", r, text, fns, UNIT)
    except extract.Undecided as e:
        # the annotated shape of finalize no longer fits the source: the Verus unit is undecided (never an alarm); the E2 contracts and the
        # bounded replay on the real crate below still run
        text, slices, r = "", [], {"json": None, "path": None}
        results = [Result("C12." + lbl, "E1", "undecided", 0.0, "verus", "unit not assembled: %s" % e, UNIT) for lbl in fns.values()]
    for x in results:
        if x.name.endswith("witness.contracts_are_satisfiable"):
            x.backend = "guard"
            if x.status == "discharged": x.status = "vacuity-ok"
    got, lost = runner.unit_or_undecided("C12.neighbour_ids.unit_not_evaluated", "E2", "voronoi_cell::VoronoiCell::{neighbour_ids, face_indices, faces}", lambda: accessor_obligations("C12"))
    obs, efns = got if got is not None else ([], [])
    smt.discharge_all(obs, tier)
    results += [runner.from_smt(o) for o in obs] + lost
    cases, bad = bounded_search(tier)
    for x in results:
        if x.status == "refuted":
            x.counterexample = bad
            x.replay = {"reproduced": bad is not None, "search": "%d masked builds through the public API" % cases, "mismatch": bad}
    results.append(Result("C12.bounded.real_builds_satisfy_the_connectivity_sentences", "R", "discharged" if bad is None else "refuted", 0.0, "replay",
                          "" if bad is None else repr(bad), "Voronoi::build_partial -> finalize / face_indices / neighbour_ids (public API, real crate)",
                          bounded="4 generators 1D, 5 generators 2D and 1-3 generators in 1D/2D/3D, every non-empty mask, periodic and not: %d builds" % cases,
                          counterexample=bad, replay={"reproduced": bad is not None, "mismatch": bad}))
    meta = {
        "level": "proof", "functions": slices + efns,
        "assumptions": verus.scan_assumptions(text) + [
            "W10: `(0..n).map(|_| vec![]).collect()` and `flatten!(..)` = `into_iter().flatten().collect()` are replaced by external_body functions with an ASSUMED std specification "
            "(n empty vectors; concatenation in order)",
            "W8/W9/W11: for-enumerate loops and `mut self` are de-sugared mechanically (rules stated in vlib/verus.py); everything else in finalize is verbatim",
            "requires of finalize: face labels in range, cells enter as constructed (idx = own index) or VoronoiCell::default() - both discharged as E2 / syntactic obligations on the producers; "
            "the total length fits in usize",
            "neighbour_ids / faces are iterator adapters over face_indices: the closure of neighbour_ids is under an E2 contract, the adapters (iter, filter_map, map) are std (assumed)",
            "'without duplicates' holds when no two faces join the same pair of cells without shift - a geometric fact about Voronoi cells (C01), not decided; left != right is assumed"],
        "trusted_base": ["Verus 0.2026.09.13 + Z3", "vx (syn 2 dump)", "vlib/verus.py splice and de-sugaring rules W1-W11"],
        "extra_cov": {"verus_functions_verified": (r["json"] or {}).get("verification-results", {}).get("verified"), "assembled_file": r["path"]},
        "explanation": "Voronoi::finalize, verified by Verus for any number of cells and faces: per-cell lists are built in face order, offsets are the prefix sums of the counts, "
                       "the array is the concatenation in cell order, every cell ends up recording its own index; theorem (from the contract alone): the slice "
                       "[offset, offset+count) is the cell's list, which contains face i iff the cell is its left cell or its unshifted right cell. The neighbour closure "
                       "yields exactly the other side of listed non-boundary non-periodic faces and never the cell itself (E2, all labels).",
    }
    return results, meta


# ------------------------------------------------------------------ E2: the accessors that read the structure
def accessor_obligations(prefix):
    from .. import symex, terms as tm
    from ..terms import Var, Const, And, Or, Not, Eq, Implies, TRUE, FALSE
    from ..symex import Struct, Opt, SymArr
    from ..e2 import Unit, vec, option, Obligation
    obs, fns = [], []
    u = Unit(VC, "VoronoiCell::neighbour_ids")
    cls = extract.find_nodes(u.fn["body"], lambda n: n.get("k") == "closure")
    fm = extract.find_nodes(u.fn["body"], lambda n: n.get("k") == "mcall" and n["m"] == "filter_map")
    if len(cls) != 1 or len(fm) != 1 or extract.text_of(u.tree, fm[0]["recv"]).replace(" ", "").replace("\n", "") != "self.face_indices(voronoi).iter()":
        raise extract.Undecided("lost anchor: self.face_indices(voronoi).iter().filter_map(|&i| ..) in neighbour_ids")
    cl = cls[0]
    made = []
    def face(i):
        k = "f%d" % len(made); made.append(i)
        return Struct("VoronoiFace", {"inner": Struct("FaceIntegrator", {"left": Var(k + "_left", "Int", "usize"), "right": option(k + "_right", Var(k + "_right", "Int", "usize")),
                                                                        "shift": option(k + "_shift", vec(k + "_shiftv"))})})
    faces = SymArr(face)
    c = Var("c", "Int", "usize")
    me = Struct("VoronoiCell", {"idx": Var("self_idx", "Int", "usize")})
    vor = Struct("Voronoi", {"faces": faces})
    i = Var("i", "Int", "usize")
    ctx = symex.Ctx(); ctx.resolver = u.resolver((VF, IN))
    it = symex.Interp(ctx, {})
    env = symex.Env(ctx, {"self": me, "voronoi": vor}, TRUE, "VoronoiCell")
    r = it.call_closure(env, symex.Closure(cl, env), [i])
    if not isinstance(r, Opt): raise extract.Undecided("neighbour_ids closure does not evaluate to an Option")
    f = faces.memo[i].f["inner"]
    left, right, shift = f.f["left"], f.f["right"], f.f["shift"]
    listed = Or(Eq(left, c), And(right.some, Eq(right.val, c), Not(shift.some)))
    # preconditions: the cell knows its own index (Verus: finalize's postcondition), the face is one of its listed faces, a face separates two different cells
    # an UNSHIFTED face separates two different cells; a periodic face may join a cell with an image of itself (left == right with a shift)
    pre = [Eq(me.f["idx"], c), listed, Implies(And(right.some, Not(shift.some)), tm.Ne(left, right.val))]
    P = pre + ctx.assume + ctx.ok
    lab = u.label + " / filter_map closure"
    obs.append(Obligation(prefix + ".neighbour_ids.requires_satisfiable", P, TRUE, lab, expect_sat=True))
    obs.append(Obligation(prefix + ".neighbour_ids.skips_exactly_boundary_and_periodic_faces", P, Eq(r.some, And(right.some, Not(shift.some))), lab))
    other = tm.Ite(Eq(left, c), right.val, left)
    obs.append(Obligation(prefix + ".neighbour_ids.yields_the_generator_on_the_other_side", P, Implies(r.some, Eq(r.val, other)), lab))
    obs.append(Obligation(prefix + ".neighbour_ids.never_yields_the_cell_itself", P, Implies(r.some, tm.Ne(r.val, c)), lab))
    obs.append(Obligation(prefix + ".neighbour_ids.no_panic_on_listed_faces", P, And(*[Implies(o.pc, o.cond) for o in ctx.panics]) if ctx.panics else TRUE, lab))
    fns.append({"fn": lab, "slice_sha": extract.sha(extract.text_of(u.tree, cl))})
    # face_indices / faces: the slice [offset, offset + count) of the connectivity array (the slice Verus' theorem talks about)
    norm = lambda t: t.replace(" ", "").replace("\n", "")
    fi = Unit(VC, "VoronoiCell::face_indices")
    ok = norm(extract.text_of(fi.tree, fi.fn["body"])) == "{&voronoi.cell_face_connections[self.face_connections_offset..(self.face_connections_offset+self.face_count)]}"
    obs.append(Obligation(prefix + ".face_indices.is_the_slice_offset_to_offset_plus_count", [], Const(bool(ok)), fi.label, note="syntactic"))
    fa = Unit(VC, "VoronoiCell::faces")
    ok = norm(extract.text_of(fa.tree, fa.fn["body"])) == "{self.face_indices(voronoi).iter().map(|&i|&voronoi.faces[i])}"
    obs.append(Obligation(prefix + ".faces.maps_face_indices_to_the_face_array", [], Const(bool(ok)), fa.label, note="syntactic"))
    fns += [{"fn": fi.label, "slice_sha": fi.sha}, {"fn": fa.label, "slice_sha": fa.sha}]
    # what enters finalize: constructed cells record convex_cell.idx, unconstructed ones are VoronoiCell::default() (cells_ok)
    fc = Unit(VC, "VoronoiCell::from_convex_cell")
    tail = norm(extract.text_of(fc.tree, fc.fn["body"]["stmts"][-1]))
    ok = tail == "VoronoiCell::init(loc,centroid,volume,convex_cell.safety_radius,convex_cell.idx)"
    obs.append(Obligation(prefix + ".cells_ok.constructed_cell_records_convex_cell_idx", [], Const(bool(ok)), fc.label, note="syntactic: tail expression"))
    ini = Unit(VC, "VoronoiCell::init")
    cell_i = Var("idx", "Int", "usize")
    rr, env2, ctx2, _ = ini.run({"loc": vec("l"), "centroid": vec("ce"), "volume": Var("vol", "Real", "f64"), "safety_radius": Var("sr", "Real", "f64"), "idx": cell_i})
    obs.append(Obligation(prefix + ".cells_ok.init_stores_idx_zero_offset_zero_count", ctx2.assume + ctx2.ok,
                          And(Eq(rr.f["idx"], cell_i), Eq(rr.f["face_connections_offset"], Const(0, "Int")), Eq(rr.f["face_count"], Const(0, "Int"))), ini.label))
    vo = extract.vx_dump(extract.src_path(VO))
    defaults = 0
    for name in ("Voronoi::build_voronoi_cells", "VoronoiIntegrator::build_voronoi_cells"):
        fn = extract.find_fn(vo, name)
        defaults += norm(extract.text_of(vo, fn)).count("VoronoiCell::default()")
        fns.append({"fn": "voronoi::" + name, "slice_sha": extract.sha(extract.text_of(vo, fn))})
    obs.append(Obligation(prefix + ".cells_ok.unconstructed_cells_are_voronoi_cell_default_on_both_routes", [], Const(defaults == 2), "voronoi.rs", note="syntactic"))
    # convex_cell.idx is the generator index: ConvexCell::build is called with (loc, idx, ..) where idx enumerates the generators
    return obs, fns
