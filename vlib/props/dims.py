"""E2 contracts for the lower-dimensional mechanisms (C08, C16): Vertex::from_dual's radius in the active subspace and the
normalisation prefix of Voronoi::build_internal / VoronoiIntegrator::build."""
from .. import terms as tm, symex, extract
from ..terms import Var, Const, And, Or, Not, Eq, Lt, Le, Ge, Gt, Ite, Implies, TRUE, FALSE
from ..symex import Vec, Struct, Opt, SymArr, Arr
from ..e2 import *
from . import faces

CC = "voronoi/convex_cell.rs"
XF = ("voronoi/half_space.rs", "geometry.rs", "voronoi/generator.rs", "voronoi.rs")


def n_active(dim):
    return Ite(dim.is_("OneD"), Const(1, "Int"), Ite(dim.is_("TwoD"), Const(2, "Int"), Const(3, "Int")))


def from_dual_obligations(prefix):
    """radius2 of a vertex = squared distance from the generator to the vertex *in the active subspace*."""
    u = Unit(CC, "Vertex::from_dual")
    dim, dimc = dim_enum()
    g = vec("gen")
    i, j, k = [Var(n, "Int") for n in "ijk"]
    planes = faces.sym_cell("c")[1]
    vloc = vec("vloc")
    seen = {}
    def intersect_contract(interp, env, node, args):
        seen["args"] = args
        return vloc
    ctx = symex.Ctx()
    r, env, ctx, it = u.run({"i": i, "j": j, "k": k, "half_spaces": planes, "gen_loc": g, "dimensionality": dim}, ctx,
                            extra_files=XF, contracts={"intersect_planes": intersect_contract})
    if "args" not in seen: raise extract.Undecided("lost anchor: intersect_planes call in Vertex::from_dual")
    # the generator was projected by Generator::new (E3 contract): unused coordinates are zero
    gproj = [Implies(dim.is_("OneD"), And(Eq(g.c[1], R0), Eq(g.c[2], R0))), Implies(dim.is_("TwoD"), Eq(g.c[2], R0))]
    P = dimc + gproj + ctx.assume + ctx.ok
    obs = []
    guard(obs, prefix + ".from_dual", u, dimc + gproj, ctx)
    act = [TRUE, Not(dim.is_("OneD")), dim.is_("ThreeD")]
    want = tm.Sum([Ite(act[a], (g.c[a] - vloc.c[a]) * (g.c[a] - vloc.c[a]), R0) for a in range(3)])
    ensure(obs, prefix + ".from_dual", "radius2_is_squared_distance_in_active_subspace", u, dimc + gproj, ctx, Eq(r.f["radius2"], want))
    ensure(obs, prefix + ".from_dual", "loc_is_intersection_of_the_three_dual_planes_dual_recorded_in_order", u, dimc + gproj, ctx,
           And(veq(r.f["loc"], vloc), Eq(r.f["dual"].e[0], i), Eq(r.f["dual"].e[1], j), Eq(r.f["dual"].e[2], k)))
    # the three planes handed to intersect_planes are half_spaces[i], [j], [k] in this order
    a0, a1, a2 = seen["args"]
    want_planes = [planes.memo[x].f["plane"] for x in (i, j, k)]
    same = And(*[And(veq(a.f["n"], w.f["n"]), veq(a.f["p"], w.f["p"])) for a, w in zip((a0, a1, a2), want_planes)])
    ensure(obs, prefix + ".from_dual", "intersects_planes_i_j_k", u, dimc + gproj, ctx, same)
    return obs, [u]


def normalisation_obligations(prefix):
    """After the prefix of build_internal / VoronoiIntegrator::build the unused components of anchor and width are (-0.5, 1)
    whatever was passed in, and the used ones are untouched."""
    obs, units = [], []
    for path, tag in (("Voronoi::build_internal", "direct"), ("VoronoiIntegrator::build", "integrator")):
        u = Unit("voronoi.rs", path)
        stmts = u.fn["body"]["stmts"]
        pre = []
        for s_ in stmts:
            e = s_.get("e") if s_.get("k") in ("expr", "semi", None) else None
            if e is not None and e.get("k") == "if" and e["c"].get("k") == "letcond":
                pre.append(s_)
            else:
                break
        if len(pre) != 2: raise extract.Undecided("lost anchor: two `if let Dimensionality::..` statements at the head of %s (found %d)" % (path, len(pre)))
        A, W = vec("anchor"), vec("width")
        dim, dimc = dim_enum()
        ctx = symex.Ctx(); ctx.resolver = u.resolver(XF)
        v, env, ctx, it = symex.run_stmts(pre, {"anchor": A, "width": W, "dimensionality": dim}, ctx, u.auto_consts(XF), path.split("::")[0])
        A2, W2 = env.vars["anchor"], env.vars["width"]
        act = [TRUE, Not(dim.is_("OneD")), dim.is_("ThreeD")]
        goal_unused = And(*[Implies(Not(act[a]), And(Eq(A2.c[a], Const(tm.Fraction(-1, 2), "Real")), Eq(W2.c[a], Const(1, "Real")))) for a in range(3)])
        goal_used = And(*[Implies(act[a], And(Eq(A2.c[a], A.c[a]), Eq(W2.c[a], W.c[a]))) for a in range(3)])
        lab = u.label + " / normalisation prefix"
        obs.append(Obligation("%s.normalise_%s.requires_satisfiable" % (prefix, tag), dimc + ctx.assume + ctx.ok, TRUE, lab, expect_sat=True))
        obs.append(Obligation("%s.normalise_%s.unused_axes_become_unit_slab_whatever_was_passed" % (prefix, tag), dimc + ctx.assume + ctx.ok, goal_unused, lab))
        obs.append(Obligation("%s.normalise_%s.active_axes_untouched" % (prefix, tag), dimc + ctx.assume + ctx.ok, goal_used, lab))
        # the normalised values are what reaches cuboid / the neighbour iterators: no later assignment to anchor / width
        later = extract.find_nodes({"k": "x", "s": stmts[2:]}, lambda n: n.get("k") in ("assign", "opassign") and
                                   extract.text_of(u.tree, n).lstrip().startswith(("anchor", "width")))
        obs.append(Obligation("%s.normalise_%s.no_later_assignment_to_anchor_or_width" % (prefix, tag), [], Const(len(later) == 0), lab, note="syntactic"))
        units.append({"fn": lab, "slice_sha": extract.sha("".join(extract.text_of(u.tree, s_) for s_ in pre))})
    return obs, units
