"""E2 contracts for the lower-dimensional mechanisms (C08, C16): Vertex::from_dual's radius in the active subspace and the
normalisation prefix of Voronoi::build_internal / VoronoiIntegrator::build."""
from .. import terms as tm, symex, extract
from ..terms import Var, Const, And, Or, Not, Eq, Lt, Le, Ge, Gt, Ite, Implies, TRUE, FALSE
from ..symex import Vec, Struct, Opt, SymArr, Arr
from ..e2 import *
from ..symex import UNIT as UNIT_
from . import faces

CC = "voronoi/convex_cell.rs"
XF = ("voronoi/half_space.rs", "geometry.rs", "voronoi/generator.rs", "voronoi.rs")


def n_active(dim):
    return Ite(dim.is_("OneD"), Const(1, "Int"), Ite(dim.is_("TwoD"), Const(2, "Int"), Const(3, "Int")))


@isolated('from_dual')
def from_dual_obligations(prefix):
    """radius2 of a vertex = squared distance from the generator to the vertex *in the active subspace*."""
    u = Unit(CC, "Vertex::from_dual")
    dim, dimc = dim_enum()
    g = vec("gen")
    i, j, k = [Var(n, "Int") for n in "ijk"]
    planes = faces.sym_cell("c")[1]
    vloc = vec("vloc")
    seen = {}
    def intersect_contract(interp, env, node, args):
        seen["args"] = args
        return vloc
    ctx = symex.Ctx()
    r, env, ctx, it = u.run({"i": i, "j": j, "k": k, "half_spaces": planes, "gen_loc": g, "dimensionality": dim}, ctx,
                            extra_files=XF, contracts={"intersect_planes": intersect_contract})
    if "args" not in seen: raise extract.Undecided("lost anchor: intersect_planes call in Vertex::from_dual")
    # the generator was projected by Generator::new (E3 contract): unused coordinates are zero
    gproj = [Implies(dim.is_("OneD"), And(Eq(g.c[1], R0), Eq(g.c[2], R0))), Implies(dim.is_("TwoD"), Eq(g.c[2], R0))]
    P = dimc + gproj + ctx.assume + ctx.ok
    obs = []
    guard(obs, prefix + ".from_dual", u, dimc + gproj, ctx)
    act = [TRUE, Not(dim.is_("OneD")), dim.is_("ThreeD")]
    want = tm.Sum([Ite(act[a], (g.c[a] - vloc.c[a]) * (g.c[a] - vloc.c[a]), R0) for a in range(3)])
    o_r2 = ensure(obs, prefix + ".from_dual", "radius2_is_squared_distance_in_active_subspace", u, dimc + gproj, ctx, Eq(r.f["radius2"], want))
    def _replay_r2(ob):
        from .c16 import replay_radius
        return replay_radius(ob)
    o_r2.replay = _replay_r2
    ensure(obs, prefix + ".from_dual", "loc_is_intersection_of_the_three_dual_planes_dual_recorded_in_order", u, dimc + gproj, ctx,
           And(veq(r.f["loc"], vloc), Eq(r.f["dual"].e[0], i), Eq(r.f["dual"].e[1], j), Eq(r.f["dual"].e[2], k)))
    # the three planes handed to intersect_planes are half_spaces[i], [j], [k] in this order
    a0, a1, a2 = seen["args"]
    want_planes = [planes.memo[x].f["plane"] for x in (i, j, k)]
    same = And(*[And(veq(a.f["n"], w.f["n"]), veq(a.f["p"], w.f["p"])) for a, w in zip((a0, a1, a2), want_planes)])
    ensure(obs, prefix + ".from_dual", "intersects_planes_i_j_k", u, dimc + gproj, ctx, same)
    return obs, [u]


@isolated('normalise')
def normalisation_obligations(prefix):
    """What reaches SimulationBoundary::cuboid (and with it every cell) on both build routes: the unused components of anchor
    and width are (-0.5, 1) whatever was passed in, the used ones are untouched.  The function bodies are run from their first
    statement up to the call that consumes the box (tolerant mode: statements outside the subset are skipped and everything they
    may write is havoc'd), so the contract does not depend on how the normalisation is written."""
    obs, units = [], []
    routes = (("Voronoi::build_internal", "direct", ("Voronoi::build_voronoi_cells",), (3, 4)),
              ("VoronoiIntegrator::build", "integrator", ("SimulationBoundary::cuboid",), (0, 1)))
    for path, tag, stops, (ia, iw) in routes:
        u = Unit("voronoi.rs", path)
        A, W = vec("anchor"), vec("width")
        dim, dimc = dim_enum()
        mask, _ = __import__("vlib.props.rules", fromlist=["x"]).sym_mask()
        ins = {"generators": SymArr(lambda i: vec("gen_in")), "mask": mask, "anchor": A, "width": W, "dimensionality": dim, "periodic": boolean("periodic")}
        name, args, env_at, ctx = run_until_call(u, ins, stops, extra_files=XF)
        if len(args) <= max(ia, iw) or not isinstance(args[ia], Vec) or not isinstance(args[iw], Vec):
            raise extract.Undecided("lost anchor: anchor / width arguments of %s in %s" % (name, path))
        A2, W2 = args[ia], args[iw]
        act = [TRUE, Not(dim.is_("OneD")), dim.is_("ThreeD")]
        goal_unused = And(*[Implies(Not(act[a]), And(Eq(A2.c[a], Const(tm.Fraction(-1, 2), "Real")), Eq(W2.c[a], Const(1, "Real")))) for a in range(3)])
        goal_used = And(*[Implies(act[a], And(Eq(A2.c[a], A.c[a]), Eq(W2.c[a], W.c[a]))) for a in range(3)])
        lab = u.label + " / from entry to the call of " + name
        P = dimc + ctx.assume + ctx.ok + [env_at.pc]
        for nm, goal, es in (("requires_satisfiable", TRUE, True), ("unused_axes_become_unit_slab_whatever_was_passed", goal_unused, False),
                             ("active_axes_untouched", goal_used, False)):
            o = Obligation("%s.normalise_%s.%s" % (prefix, tag, nm), P, goal, lab, expect_sat=es)
            if not es: o.replay = replay_normalisation
            obs.append(o)
        # the box that reaches the cells is a function of the inputs only if nothing havoc'd flows into it
        for o in obs[-3:]: o.havoc = has_havoc(A2.c + W2.c)
        units.append({"fn": lab, "slice_sha": u.sha})
    # the direct route hands the normalised box on unchanged: build_voronoi_cells(.., anchor, width, ..) -> cuboid(anchor, width, ..)
    u = Unit("voronoi.rs", "Voronoi::build_voronoi_cells")
    A, W = vec("anchor"), vec("width")
    dim, dimc = dim_enum()
    mask, _ = __import__("vlib.props.rules", fromlist=["x"]).sym_mask()
    ins = {"generators": SymArr(lambda i: vec("gen_in")), "faces": SymArr(lambda i: UNIT_), "mask": mask, "anchor": A, "width": W, "dimensionality": dim,
           "periodic": boolean("periodic")}
    name, args, env_at, ctx = run_until_call(u, ins, ("SimulationBoundary::cuboid",), extra_files=XF)
    ok = len(args) >= 2 and isinstance(args[0], Vec) and isinstance(args[1], Vec)
    if not ok: raise extract.Undecided("lost anchor: cuboid(anchor, width, ..) in build_voronoi_cells")
    o = Obligation("%s.normalise_direct.box_passed_on_unchanged_to_cuboid" % prefix, dimc + ctx.assume + ctx.ok + [env_at.pc],
                   And(veq(args[0], A), veq(args[1], W)), u.label + " / from entry to the call of SimulationBoundary::cuboid")
    o.havoc = has_havoc(args[0].c + args[1].c)
    obs.append(o)
    units.append({"fn": u.label + " / from entry to the call of SimulationBoundary::cuboid", "slice_sha": u.sha})
    return obs, units


def replay_normalisation(ob):
    """Model (dimensionality, garbage anchor / width in the unused axes) -> a small tessellation through the public API on the route the
    obligation is about; the property's sentence 'measures are lengths / areas (unit thickness)' is evaluated on the real output:
    the cell volumes must sum to the measure of the box in the active subspace."""
    from ..runner import replay_requests
    m = ob.model or {}
    def fl(k, d):
        try: return float(tm.Fraction(str(m[k])))
        except Exception: return d
    route = "integrator" if "normalise_integrator" in ob.name else "direct"
    runs = []
    dims_ = [int(fl("dim", 0)) + 1] + [d for d in (1, 2) if d != int(fl("dim", 0)) + 1]
    for d in dims_:
        if d == 3: continue
        anchor = [fl("anchor_%s" % a, 0.0) for a in "xyz"]
        width = [abs(fl("width_%s" % a, 1.0)) or 1.0 for a in "xyz"]
        for garbage in ((anchor, width), ([anchor[0], 0.3, -7.0], [width[0], 2.5, 3.0])):
            an, wi = list(garbage[0]), list(garbage[1])
            gens = [[an[0] + wi[0] * t, (an[1] + wi[1] * s) if d == 2 else 0.123, 9.0] for t, s in ((0.15, 0.2), (0.45, 0.7), (0.8, 0.4))]
            req = {"op": "build", "gens": gens, "anchor": an, "width": wi, "dim": d, "route": route}
            a = replay_requests([req])[0]
            want = wi[0] * (wi[1] if d == 2 else 1.0)
            got = sum(c["volume"] for c in a.get("cells", [])) if "cells" in a else None
            bad = got is None or not (abs(got - want) <= 1e-9 * max(1.0, abs(want)))
            runs.append({"request": req, "sum_of_cell_measures": got, "measure_of_box_in_active_subspace": want, "violates": bad, "panic": a.get("panic", False)})
    hit = [r for r in runs if r["violates"]]
    return {"reproduced": bool(hit), "runs": hit[:2] or runs[:1],
            "what": "sum of cell measures of a %s-route tessellation vs the measure of the box in the active subspace" % route}
