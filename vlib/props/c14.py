"""C14 — custom integrals receive a signed decomposition of the cell.  Claimed part: the decomposition WITHOUT stored faces as contracts
on the real code (the six projections of a vertex lie where the triangles need them; every tetrahedron's base lies in the plane it is
labelled with; each vertex yields its six tetrahedra in order, then the next vertex is loaded; None exactly at the end) + the merging
lemma that makes the per-vertex pieces add up along an edge. The exactness for whole cells, the route with stored faces, and the
delivery of per-cell data are covered by BOUNDED stand-ins on the real crate (custom integrals through the public traits)."""
import random
from .. import terms as tm, symex, extract, smt, runner
from ..terms import Var, Const, And, Or, Not, Eq, Lt, Le, Ge, Gt, Ite, Implies, TRUE, FALSE
from ..symex import Vec, Struct, Opt, SymArr, Arr
from ..e2 import *
from ..runner import Result
from . import faces as F

CC = "voronoi/convex_cell.rs"
XF = ("voronoi/half_space.rs", "geometry.rs", "voronoi/generator.rs")


def on_plane(x, hs): return Eq(dot(sub(x, hs.f["plane"].f["p"]), hs.f["plane"].f["n"]), R0)


def sym_vertex(tag):
    return Struct("Vertex", {"loc": vec(tag + "_loc"), "dual": Arr([Var("%s_dual%d" % (tag, a), "Int", "usize") for a in range(3)]), "radius2": real(tag + "_r2")})


@isolated('decomposition')
def decomposition_obligations(prefix):
    obs, fns = [], []
    cell, planes = F.sym_cell("dc")
    made = []
    def vertex(i):
        v = sym_vertex("v%d" % len(made)); made.append(i); return v
    verts = SymArr(vertex); verts.length = Var("n_vertices", "Int", "usize")
    cell = Struct("ConvexCell", dict(cell.f, vertices=verts))
    # ---- load_vertex: the six projections of the current vertex
    ul = Unit(CC, "DecompositionWithoutFaces::load_vertex")
    k = Var("cur_vertex_idx", "Int", "usize")
    dec0 = Struct("DecompositionWithoutFaces", {"cur_vertex_idx": k, "cur_vertex": sym_vertex("stale"), "cur_tet_idx": Var("cur_tet_idx", "Int", "usize"),
                                                "projections": Arr([vec("stale_proj%d" % t) for t in range(6)])})
    ctx = symex.Ctx()
    _, env, ctx, it = ul.run({"self": dec0, "convex_cell": cell}, ctx, extra_files=XF)
    dec1 = env.vars["self"]
    if k not in verts.memo: raise extract.Undecided("lost anchor: load_vertex reads convex_cell.vertices[self.cur_vertex_idx]")
    v = verts.memo[k]
    hs = [planes.memo.get(v.f["dual"].e[a]) for a in range(3)]
    if any(h is None for h in hs): raise extract.Undecided("lost anchor: load_vertex reads the three dual planes of the vertex")
    n = [h.f["plane"].f["n"] for h in hs]
    indep = tm.Ne(det3(n[0], n[1], n[2]), R0)         # the three planes of a vertex meet in a point
    pre = [Ge(k, Const(0, "Int")), Lt(k, verts.length), indep]
    P = pre + ctx.assume + ctx.ok
    lab = ul.label
    # vacuity: the precondition is satisfiable and implies every assert! on the way (so the assumption set P below is satisfiable too)
    obs.append(Obligation(prefix + ".load_vertex.requires_satisfiable", pre, TRUE, lab, expect_sat=True))
    # the asserts on the way are `det(n_i, n_j, n_i x n_j) != 0` (project_onto_intersection -> intersect_planes). Two polynomial identities (proved by the
    # ring normaliser as their own obligations) reduce them to the independence of the three normals; their instances are handed to the solver as hypotheses
    la, lb, lc = vec("lem_a"), vec("lem_b"), vec("lem_c")
    mdet = lambda x_, y_, z_: symex.det([x_.c, y_.c, z_.c])      # the term glam's DMat3::from_cols(x, y, z).determinant() evaluates to
    obs.append(Obligation(prefix + ".lemma.det_of_two_vectors_and_their_cross_product_is_its_norm_squared", [], Eq(mdet(la, lb, cross(la, lb)), norm2(cross(la, lb))), "lemma (code-independent)"))
    obs.append(Obligation(prefix + ".lemma.triple_product_is_cyclic", [], And(Eq(det3(la, lb, lc), det3(lb, lc, la)), Eq(det3(la, lb, lc), det3(lc, la, lb))), "lemma (code-independent)"))
    inst = [Eq(det3(n[0], n[1], n[2]), det3(n[1], n[2], n[0])), Eq(det3(n[0], n[1], n[2]), det3(n[2], n[0], n[1]))]
    for i in range(3):
        j = (i + 1) % 3
        for x_, y_ in ((n[i], n[j]), (n[j], n[i])):
            inst.append(Eq(mdet(x_, y_, cross(x_, y_)), norm2(cross(x_, y_))))
    o_np = Obligation(prefix + ".load_vertex.no_panic_when_the_three_planes_of_the_vertex_are_independent", pre + ctx.assume + inst,
                      And(*[Implies(o.pc, o.cond) for o in ctx.panics]) if ctx.panics else TRUE, lab, timeout=120,
                      note="instances of the two lemmas above are hypotheses; ATTEMPTED only (degree-4 reasoning the solvers do not finish)")
    o_np.optional = True
    obs.append(o_np)
    # vacuity guard with a concrete witness (three coordinate planes through (1,2,3), generator at (0.25, 0.5, 0.75)): every assert on the way holds there
    wit = []
    for i in range(3):
        for a_ in range(3):
            wit.append(Eq(n[i].c[a_], Const(1 if a_ == i else 0, "Real")))
            wit.append(Eq(hs[i].f["plane"].f["p"].c[a_], Const(a_ + 1, "Real")))
    wit += [Eq(cell.f["loc"].c[a_], Const(tm.Fraction(a_ + 1, 4), "Real")) for a_ in range(3)]
    obs.append(Obligation(prefix + ".load_vertex.assumptions_satisfiable_at_a_concrete_vertex", P + wit, TRUE, lab, expect_sat=True))
    obs.append(Obligation(prefix + ".load_vertex.defined", P, And(*[Implies(o.pc, o.cond) for o in ctx.obls]) if ctx.obls else TRUE, lab))
    pr = dec1.f["projections"].e
    gl = cell.f["loc"]
    goals = []
    for i in range(3):
        j = (i + 1) % 3
        goals.append(on_plane(pr[2 * i], hs[i]))                                                     # foot of the generator on plane i
        goals.append(veq(cross(sub(pr[2 * i], gl), n[i]), Vec([R0] * 3)))                            # ... along the normal
        goals.append(And(on_plane(pr[2 * i + 1], hs[i]), on_plane(pr[2 * i + 1], hs[j])))            # foot on the edge (planes i and i+1)
        goals.append(Eq(dot(sub(pr[2 * i + 1], gl), cross(n[i], n[j])), R0))                         # ... orthogonal to the edge direction
    obs.append(Obligation(prefix + ".load_vertex.projections_are_the_feet_of_the_generator_on_the_three_planes_and_three_edges_of_the_vertex", P, And(*goals), lab, timeout=120))
    obs.append(Obligation(prefix + ".load_vertex.current_vertex_is_the_indexed_vertex_other_state_untouched", P,
                          And(veq(dec1.f["cur_vertex"].f["loc"], v.f["loc"]), *[Eq(dec1.f["cur_vertex"].f["dual"].e[a], v.f["dual"].e[a]) for a in range(3)],
                              Eq(dec1.f["cur_vertex_idx"], k), Eq(dec1.f["cur_tet_idx"], dec0.f["cur_tet_idx"])), lab))
    fns.append({"fn": lab, "slice_sha": ul.sha})
    # ---- next(): one run per value of cur_tet_idx
    un = Unit(CC, "DecompositionWithoutFaces::next")
    cv = sym_vertex("cv")
    proj = [vec("proj%d" % t) for t in range(6)]
    chs = [planes.memo.setdefault(cv.f["dual"].e[a], planes.factory(cv.f["dual"].e[a])) for a in range(3)]
    # what load_vertex established (its contract) + the vertex is the intersection of its dual planes (Vertex::from_dual, C08/C16 + C19)
    inv = []
    for i in range(3):
        j = (i + 1) % 3
        inv += [on_plane(proj[2 * i], chs[i]), on_plane(proj[2 * i + 1], chs[i]), on_plane(proj[2 * i + 1], chs[j]), on_plane(cv.f["loc"], chs[i])]
    for t in range(6):
        loaded = {}
        def lv(interp, env, node, args, loaded=loaded): loaded["self"] = args[0]; return symex.UNIT
        ctx = symex.Ctx(); ctx.contracts["DecompositionWithoutFaces::load_vertex"] = lv
        dec = Struct("DecompositionWithoutFaces", {"cur_vertex_idx": k, "cur_vertex": cv, "cur_tet_idx": Const(t, "Int", "usize"), "projections": Arr(proj)})
        r, env, ctx, it = un.run({"self": dec, "convex_cell": cell}, ctx, extra_files=XF)
        d2 = loaded.get("self", env.vars["self"])
        if not isinstance(r, Opt): raise extract.Undecided("next does not return an Option")
        tet = r.val
        P = [Ge(k, Const(0, "Int"))] + inv + ctx.assume + ctx.ok
        more = Lt(k, verts.length)
        hs_t = chs[t // 2]
        obs.append(Obligation("%s.next.tet%d.some_iff_vertices_left_and_base_triangle_lies_in_the_plane_it_is_labelled_with" % (prefix, t), P,
                              And(Eq(r.some, more), Implies(more, And(Eq(tet.f["plane_idx"], cv.f["dual"].e[t // 2]),
                                                                      *[on_plane(x, hs_t) for x in tet.f["vertices"].e]))), un.label))
        obs.append(Obligation("%s.next.tet%d.is_projection_%d_projection_%d_vertex" % (prefix, t, t, (t + 5) % 6), P,
                              Implies(more, And(veq(tet.f["vertices"].e[0], proj[t]), veq(tet.f["vertices"].e[1], proj[(t + 5) % 6]), veq(tet.f["vertices"].e[2], cv.f["loc"]))), un.label))
        st = env.vars["self"]
        if t < 5:
            goal = Implies(more, And(Eq(st.f["cur_tet_idx"], Const(t + 1, "Int")), Eq(st.f["cur_vertex_idx"], k), Const("self" not in loaded)))
        else:
            goal = Implies(more, And(Eq(st.f["cur_tet_idx"], Const(0, "Int")), Eq(st.f["cur_vertex_idx"], k + Const(1, "Int"))))
        obs.append(Obligation("%s.next.tet%d.%s" % (prefix, t, "advances_to_the_next_tetrahedron_of_the_same_vertex" if t < 5 else "moves_on_to_the_next_vertex"), P, goal, un.label))
    fns.append({"fn": un.label, "slice_sha": un.sha})
    # after the sixth tetrahedron the next vertex is loaded iff there is one (the call sits under `if self.cur_vertex_idx < len`)
    calls = extract.find_nodes(un.fn["body"], lambda n_: n_.get("k") == "mcall" and n_["m"] == "load_vertex")
    obs.append(Obligation(prefix + ".next.loads_the_next_vertex_exactly_when_one_is_left", [], Const(len(calls) == 1), un.label, note="syntactic: one load_vertex call, under the bounds test"))
    return obs, fns


@isolated('lemma')
def lemma_obligations(prefix):
    """Code-independent algebra behind the exactness argument: the two pieces on either side of an edge foot b merge
    (b on the line through v and w): vol(a, v, b, g) + vol(a, b, w, g) = vol(a, v, w, g), with the REAL signed_volume_tet / signed_area_tri."""
    obs = []
    u = Unit("geometry.rs", "signed_volume_tet")
    a, v, w, g, s = vec("la"), vec("lv"), vec("lw"), vec("lg"), real("ls")
    b = add(v, scale(s, sub(w, v)))
    call = lambda p, q, r_: u.run({"v0": p, "v1": q, "v2": r_, "v3": g})[0]
    obs.append(Obligation(prefix + ".lemma.tetrahedra_on_either_side_of_an_edge_foot_merge", [], Eq(call(a, v, b) + call(a, b, w), call(a, v, w)), u.label + " (lemma)",
                          note="b = v + s (w - v): the per-vertex pieces (a_i, b_e, v) of the two end points of an edge add up to the fan triangle (a_i, v, w) of the face"))
    return obs, [{"fn": u.label + " (merge lemma)", "slice_sha": u.sha}]


_ds_built = {}


def build_downstream(with_data):
    """Build /verif/replay_ds (a crate that sees only the PUBLIC API, no hooks, no cfg) against the repository's working tree."""
    import hashlib, os, subprocess
    from ..extract import BUILD, VERIF, REPO
    if with_data in _ds_built: return _ds_built[with_data]
    tag = "" if REPO == "/repo" else "-" + hashlib.sha256(REPO.encode()).hexdigest()[:8]
    crate = os.path.join(BUILD, "ds-crate" + tag)
    os.makedirs(os.path.join(crate, "src"), exist_ok=True)
    for src in ("Cargo.toml", "Cargo.lock", "src/main.rs"):
        new = open(os.path.join(VERIF, "replay_ds", src)).read()
        if src == "Cargo.toml": new = new.replace('path = "/repo"', 'path = "%s"' % REPO)
        d = os.path.join(crate, src)
        if not os.path.exists(d) or open(d).read() != new:
            with open(d, "w") as f: f.write(new)
    tgt = os.path.join(BUILD, "replay-target" + tag)      # shares the dependency builds with the replay crate
    env = dict(os.environ, CARGO_NET_OFFLINE="true", CARGO_TARGET_DIR=os.path.join(BUILD, "ds-target" + tag))
    cmd = ["cargo", "build", "--offline", "--quiet"] + (["--features", "with_data"] if with_data else [])
    p_ = subprocess.run(cmd, cwd=crate, env=env, capture_output=True, text=True, timeout=1800)
    exe = os.path.join(BUILD, "ds-target" + tag, "debug", "vdownstream") if p_.returncode == 0 else None
    errs = "\n".join(l for l in p_.stderr.splitlines() if not l.startswith("warning") )
    _ds_built[with_data] = (exe, errs)
    return _ds_built[with_data]


def downstream_results(prefix):
    """'A downstream crate can define its own cell and face integrals': decided by rustc type-checking a downstream crate that does so."""
    import re
    out = []
    for with_data, name, what in ((False, "cell_and_face_integrals_can_be_defined_outside_the_crate", "impl CellIntegral / FaceIntegral for a downstream type"),
                                  (True, "integrals_with_per_cell_data_can_be_defined", "impl CellIntegralWithData / FaceIntegralWithData (Data = usize) for a downstream type")):
        exe, errs = build_downstream(with_data)
        codes = re.findall(r"error\[(E\d+)\]", errs)
        first = "\n".join(errs.splitlines()[:40])
        if exe is not None: st, det = "discharged", ""
        elif codes and set(codes) <= {"E0432", "E0433", "E0603", "E0277", "E0405", "E0412", "E0119", "E0407", "E0046", "E0049", "E0053", "E0195", "E0276"}:
            # name-resolution / visibility / coherence / signature errors in the downstream impls: the sentence is false for the real crate
            st, det = "refuted", first
        else: st, det = "undecided", "downstream crate does not build for another reason:\n" + first
        if st == "refuted" and with_data and set(codes) != {"E0119"}:
            name += ".other_errors_than_the_recorded_coherence_conflict"      # the known finding is exactly the E0119 conflict; anything else is new
        r = Result("%s.downstream.%s" % (prefix, name), "rustc", st, 0.0, "rustc", det, "/verif/replay_ds (public API only): " + what,
                   counterexample={"crate": "/verif/replay_ds", "features": ["with_data"] if with_data else [], "rustc_error_codes": codes} if st == "refuted" else None,
                   replay={"reproduced": st == "refuted", "what": "cargo build of the downstream crate against the real crate fails", "rustc": first[:1500]} if st == "refuted" else None)
        out.append(r)
    return out


def moments_probe(seed, n_sets):
    """Custom integrals through the public traits on the real crate: (i) a polynomial basis up to degree 2 integrated over every cell sums to the
    moments of the box; (ii) cells with and without stored faces give the same moments; (iii) base triangles of a face integral lie in the face's
    plane and their signed areas sum to the stored face area; (iv) per-cell data d[i] = i arrives at the cell with generator index i under masks."""
    rng = random.Random(seed)
    reqs = []
    for t in range(n_sets):
        d = 3 if t % 3 != 2 else 2
        n = rng.choice([1, 2, 9, 25])
        w = [1.0, rng.choice([1.0, 1.3]), rng.choice([1.0, 0.8]) if d == 3 else 1.0]
        gens = [[rng.random() * w[0], rng.random() * w[1], rng.random() * w[2] if d == 3 else 0.0] for _ in range(n)]
        mask = [rng.random() < 0.7 for _ in range(n)] if t % 2 else None
        if mask is not None and not any(mask): mask[0] = True
        reqs.append({"op": "moments", "gens": gens, "anchor": [0, 0, 0], "width": w, "dim": d, "periodic": bool(t % 4 == 1), "mask": mask})
    # single generators, also exactly on a wall / edge / corner of a reflective box: every wall face must be fed
    for d in (3, 2):
        for g in ([0.3, 0.4, 0.6], [0.0, 0.4, 0.6], [1.0, 0.0, 0.6], [0.0, 0.0, 0.0]):
            reqs.append({"op": "moments", "gens": [[g[0], g[1], g[2] if d == 3 else 0.0]], "anchor": [0, 0, 0], "width": [1.0, 1.0, 1.0], "dim": d, "periodic": False, "mask": None})
    import json, subprocess
    exe, errs = build_downstream(True)
    if exe is None: exe, errs = build_downstream(False)
    if exe is None: return 0, "unbuildable"
    p_ = subprocess.run([exe], input="\n".join(json.dumps(r) for r in reqs) + "\n", capture_output=True, text=True, timeout=900)
    ans = []
    for line in p_.stdout.splitlines():
        try: ans.append(json.loads(line))
        except Exception: ans.append({"error": line[:200]})
    while len(ans) < len(reqs): ans.append({"error": "no answer", "stderr": p_.stderr[-300:]})
    for rq, a in zip(reqs, ans):
        if a.get("error") or a.get("panic"): return len(reqs), {"request": rq, "real": a, "what": "integrals fail"}
        if a.get("bad"): return len(reqs), {"request": rq, "real": a["bad"], "what": a["bad"].get("what")}
    return len(reqs), None


def run(tier, seed):
    obs, fns = decomposition_obligations("C14")
    o2, f2 = lemma_obligations("C14"); obs += o2; fns += f2
    # the symmetric variant feeds exactly the faces the tessellation stores (same contract as C13 / C07)
    from . import rules
    o3, f3 = rules.emit_obligations("C14", want=("sym",)); obs += o3; fns += f3
    smt.discharge_all(obs, tier)
    results = [runner.from_smt(o) for o in obs]
    results += downstream_results("C14")
    n, bad = moments_probe(seed, 12 if tier == "quick" else 90)
    if bad == "unbuildable":
        results.append(Result("C14.bounded.real_custom_integrals_moments_face_triangles_and_data_delivery", "R", "undecided", 0.0, "replay",
                              "the downstream crate with the custom integrals does not build against this tree (see C14.downstream.*)", "public API", bounded="not run"))
        n, bad = 0, None
        skip_probe = True
    else: skip_probe = False
    for x in results:
        if x.status == "refuted" and not (x.replay and x.replay.get("reproduced")):
            x.counterexample = x.counterexample or bad
            x.replay = {"reproduced": bad is not None, "search": "%d real tessellations" % n, "mismatch": bad}
    if not skip_probe: results.append(Result("C14.bounded.real_custom_integrals_moments_face_triangles_and_data_delivery", "R", "discharged" if bad is None else "refuted", 0.0, "replay",
                          "" if bad is None else repr(bad)[:3000], "ConvexCell::compute_cell_integral / compute_face_integrals*, VoronoiIntegrator::compute_*_with_data (public API, real crate)",
                          bounded="%d tessellations (1..25 generators, 2D/3D, masks, periodic or not), polynomial basis up to degree 2, seed %d" % (n, seed),
                          counterexample=bad, replay={"reproduced": bad is not None, "mismatch": bad}))
    meta = {
        "level": "proof", "functions": fns + [{"fn": "whole-cell exactness, DecompositionWithFaces, compute_*_with_data (bounded stand-in only)", "backend": "replay"}],
        "assumptions": ["A-REAL for the E2 obligations",
                        "the vertex is the intersection of its three dual planes and its planes are independent: Vertex::from_dual's contract (C08/C16) with intersect_planes' (C19)",
                        "NOT proved: that the signed tetrahedra sum to the cell for every convex cell (needs each face to be a closed polygon and the cell a closed polytope = C01/C15's "
                        "undecided part; the merge lemma and the in-plane contracts are the local halves of that argument), the decomposition WITH stored faces (fan over face_vertices: "
                        "iterator / unchecked-accessor code), 'for every downstream implementation of the integral traits', data delivery (zip before filter_map: iterator chains). "
                        "All of these are covered by the BOUNDED stand-in only"],
        "trusted_base": ["vx (syn 2 dump)", "vlib/symex.py", "z3 4.8.12 / z3 5.1 / cvc5 1.0", "replay crate (custom integrals through the public traits)"],
        "explanation": "DecompositionWithoutFaces as contracts on the real code: load_vertex computes, for the three planes of the current vertex, the foot of the generator on each plane "
                       "and on each edge (plane i, plane i+1); next() with cur_tet_idx = t returns (projection t, projection t+5 mod 6, vertex) labelled with plane dual[t/2], and all three "
                       "points lie in that plane - 'the base triangles fed to a face integral lie in that face's plane'; six tetrahedra per vertex in order, then the next vertex, None at the end. "
                       "Lemma (real signed_volume_tet): the pieces on either side of an edge foot merge into the fan triangle.",
    }
    return results, meta
