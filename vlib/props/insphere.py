"""E2 contract for geometry::in_sphere_test_exact (shared by C10, C11, C05).

Contract (from the property statement, not from the code):
  requires  all 15 coordinates in [0, 2^52), every slice has length >= 3
  ensures   result = sign(det4) as -1.0 / 0.0 / 1.0, where det4 is the 4x4 determinant with columns
            (X - a, |X - a|^2) for X = b, c, d, v  -- written below as the 24-term Leibniz sum --
            no i64 overflow, no out-of-bounds index.
Meaning lemma (pure polynomial identities over Z): with O = det3[B C D] and Q the cofactor vector,
  B.Q = O|B|^2, C.Q = O|C|^2, D.Q = O|D|^2   (Q / 2O is the circumcentre of 0,B,C,D)
  det4 = O|V|^2 - V.Q   and   4 O det4 = |2O V - Q|^2 - |Q|^2
hence for O > 0:  det4 < 0  <=>  V strictly inside the circumsphere,  det4 = 0 <=> V on it.
"""
import itertools, random
from .. import terms as tm, symex, extract
from ..terms import Var, Const, And, Or, Not, Eq, Lt, Le, Ge, Gt, Ite, Implies
from ..smt import Obligation

PTS = ["a", "b", "c", "d", "v"]
LIM = 2 ** 52


def inputs():
    vals, req = {}, []
    for p in PTS:
        elems = [Var("%s%d" % (p, i), "Int", "i64") for i in range(3)]
        length = Var("len_%s" % p, "Int", "usize")
        vals[p] = symex.Arr(elems, length)
        req.append(Ge(length, Const(3, "Int")))
        for e in elems:
            req += [Le(Const(0, "Int"), e), Lt(e, Const(LIM, "Int"))]
    return vals, req


def perm_sign(p):
    s = 1
    p = list(p)
    for i in range(len(p)):
        while p[i] != i:
            j = p[i]; p[i], p[j] = p[j], p[i]; s = -s
    return s


def leibniz(cols):
    n = len(cols)
    total = None
    for p in itertools.permutations(range(n)):
        term = Const(perm_sign(p), "Int")
        for c in range(n):
            term = term * cols[c][p[c]]
        total = term if total is None else total + term
    return total


def lifted(vals, x):
    d = [vals[x].e[i] - vals["a"].e[i] for i in range(3)]
    return d + [d[0] * d[0] + d[1] * d[1] + d[2] * d[2]]


def spec_det(vals):
    return leibniz([lifted(vals, x) for x in "bcdv"])


def sign_real(d):
    z = Const(0, "Int")
    return Ite(Lt(d, z), Const(-1, "Real"), Ite(Eq(d, z), Const(0, "Real"), Const(1, "Real")))


def body_for_feature(feature):
    """The function as rustc expands it under `ibig`; for another back end the cfg-selected tail
    statements (`let result = ...`) are taken from the unexpanded source with that feature set."""
    exp = extract.vx_dump(extract.expanded_source(("ibig",)))
    fn = extract.find_fn(exp, "geometry::in_sphere_test_exact")
    slice_text = extract.text_of(exp, fn)
    if feature == "ibig":
        return fn, slice_text, exp
    src = extract.vx_dump(extract.src_path("geometry.rs"))
    raw = extract.find_fn(src, "in_sphere_test_exact")
    def is_result_let(s):
        if s["k"] != "let": return False
        p = s["pat"]
        while p["k"] == "ptype": p = p["pat"]
        return p["k"] == "pident" and p["name"] == "result"
    stmts = fn["body"]["stmts"]
    first = next((i for i, s in enumerate(stmts) if is_result_let(s)), None)
    raw_stmts = raw["body"]["stmts"]
    rfirst = next((i for i, s in enumerate(raw_stmts) if is_result_let(s)), None)
    if first is None or rfirst is None:
        raise extract.Undecided("lost anchor: `let result` tail of in_sphere_test_exact")
    new = dict(fn)
    new["body"] = dict(fn["body"]); new["body"]["stmts"] = stmts[:first] + raw_stmts[rfirst:]
    tail_text = src["_bytes"][raw_stmts[rfirst]["sp"][0]:raw["body"]["sp"][1]].decode()
    return new, slice_text + "\n// tail for feature %s:\n%s" % (feature, tail_text), exp


def obligations(prefix, feature="ibig", with_meaning=True):
    fn, slice_text, exp = body_for_feature(feature)
    vals, req = inputs()
    ctx = symex.Ctx()
    # helper functions the body may call live in the same (macro-expanded) crate text
    table = extract.all_fns(exp)
    def res(name):
        if name in table: return table[name]
        hits = [v for k, v in table.items() if k.split("@")[0].endswith("::" + name)]
        return hits[0] if len(hits) == 1 else None
    ctx.resolver = res
    res, env, ctx, it = symex.run_function(fn, vals, ctx, features={feature})
    det_code = env.vars.get("determinant")
    if det_code is None or not isinstance(res, tm.T):
        raise extract.Undecided("in_sphere_test_exact: no `determinant` local / scalar result")
    unit = "geometry::in_sphere_test_exact[%s]" % feature
    obs = []
    pre = req + ctx.assume
    # vacuity guard
    obs.append(Obligation(prefix + ".requires_satisfiable", pre, tm.TRUE, unit, expect_sat=True))
    # definedness: no i64 overflow in the subtractions, no index panic
    ovf = [Implies(o.pc, o.cond) for o in ctx.obls]
    pan = [Implies(o.pc, o.cond) for o in ctx.panics]
    if not ovf: raise extract.Undecided("no overflow obligations generated (extraction lost the i64 subtractions?)")
    obs.append(Obligation(prefix + ".no_i64_overflow", pre, And(*ovf), unit, note="%d subtraction sites" % len(ovf)))
    obs.append(Obligation(prefix + ".no_index_panic", pre, And(*pan), unit, note="%d index sites" % len(pan)))
    ok = ctx.ok
    spec = spec_det(vals)
    obs.append(Obligation(prefix + ".det_code_eq_leibniz24", pre + ok, Eq(det_code, spec), unit, timeout=120))
    obs.append(Obligation(prefix + ".result_is_sign_of_det", pre + ok, Eq(res, sign_real(det_code)), unit))
    if with_meaning:
        B, C, D, V = [[Var("%s%d" % (n, i), "Int") for i in range(3)] for n in "BCDV"]
        n2 = lambda X: X[0] * X[0] + X[1] * X[1] + X[2] * X[2]
        dot = lambda X, Y: X[0] * Y[0] + X[1] * Y[1] + X[2] * Y[2]
        O = leibniz([B, C, D])
        # Q solves  B.Q = O|B|^2 etc. (Cramer on rows B,C,D): Q_i = det of [rows] with column i replaced by norms
        rows = [B, C, D]; nn = [n2(B), n2(C), n2(D)]
        def cramer(i):
            m = [[(nn[r] if k == i else rows[r][k]) for k in range(3)] for r in range(3)]
            return leibniz([[m[r][k] for r in range(3)] for k in range(3)])
        Q = [cramer(i) for i in range(3)]
        det4 = leibniz([B + [n2(B)], C + [n2(C)], D + [n2(D)], V + [n2(V)]])
        mu = "geometry::in_sphere_test_exact (meaning lemma, code-independent)"
        obs.append(Obligation(prefix + ".lemma.Q_is_2O_circumcentre", [], And(Eq(dot(B, Q), O * n2(B)), Eq(dot(C, Q), O * n2(C)), Eq(dot(D, Q), O * n2(D))), mu))
        obs.append(Obligation(prefix + ".lemma.det4_eq_O_V2_minus_VQ", [], Eq(det4, O * n2(V) - dot(V, Q)), mu, timeout=120))
        W = [Const(2, "Int") * O * V[i] - Q[i] for i in range(3)]
        obs.append(Obligation(prefix + ".lemma.4O_det4_eq_W2_minus_Q2", [], Eq(Const(4, "Int") * O * det4, n2(W) - n2(Q)), mu, timeout=120))
        o, x, w, q = [Var(n, "Int") for n in ("o_", "x_", "w_", "q_")]
        z = Const(0, "Int")
        obs.append(Obligation(prefix + ".lemma.sign_step", [Gt(o, z), Eq(Const(4, "Int") * o * x, w - q)],
                              And(Eq(Lt(x, z), Lt(w, q)), Eq(Eq(x, z), Eq(w, q))), mu,
                              note="o = O > 0, x = det4, w = |2O V - Q|^2, q = |Q|^2: det4 < 0 <=> V strictly inside"))
    meta = {"unit": unit, "slice_sha": extract.sha(slice_text), "result_term": res, "vals": vals, "det_code": det_code,
            "inlined": ctx.inlined}
    return obs, meta


def py_det(pts):
    a = pts[0]
    cols = []
    for x in pts[1:]:
        d = [x[i] - a[i] for i in range(3)]
        cols.append(d + [sum(t * t for t in d)])
    tot = 0
    for p in itertools.permutations(range(4)):
        t = perm_sign(p)
        for c in range(4): t *= cols[c][p[c]]
        tot += t
    return tot


def validate_translation(meta, seed, n=200):
    """The symbolic result term, evaluated on random + adversarial inputs, must equal the real function."""
    from ..runner import replay_requests
    rng = random.Random(seed)
    cases = []
    for k in range(n):
        mode = k % 4
        if mode == 0: pts = [[rng.randrange(LIM) for _ in range(3)] for _ in range(5)]
        elif mode == 1: pts = [[rng.randrange(8) for _ in range(3)] for _ in range(5)]
        elif mode == 2:
            base = [rng.randrange(LIM - 4) for _ in range(3)]
            pts = [[base[i] + rng.randrange(3) for i in range(3)] for _ in range(5)]
        else:
            # co-spherical (cube corners) +-1
            s = rng.randrange(1, 2 ** 20); o = [rng.randrange(LIM - 2 * s - 2) + 1 for _ in range(3)]
            corners = [[o[i] + s * ((m >> i) & 1) for i in range(3)] for m in rng.sample(range(8), 5)]
            corners[4][rng.randrange(3)] += rng.choice([-1, 0, 1])
            pts = corners
        cases.append(pts)
    ans = replay_requests([{"op": "in_sphere_exact", "pts": p} for p in cases])
    bad = []
    for pts, a in zip(cases, ans):
        envv = {}
        for name, p in zip(PTS, pts):
            for i in range(3): envv["%s%d" % (name, i)] = p[i]
            envv["len_%s" % name] = 3
        want = tm.evaluate(meta["result_term"], envv)
        d = py_det(pts)
        oracle = (d > 0) - (d < 0)
        # a TRANSLATION mismatch is symbolic term != compiled function (machinery trouble). term == real != oracle is not:
        # it is the code disagreeing with the property, which the obligation result_is_sign_of_det decides (and replays).
        if "r" not in a or a["r"] != float(want):
            bad.append({"pts": pts, "real": a, "term": float(want), "oracle": oracle})
    return len(cases), bad


def replay_model(ob):
    """Replay a refuting integer model on the real function against an independent big-int determinant."""
    from ..runner import replay_requests
    m = ob.model or {}
    pts = [[int(m.get("%s%d" % (p, i), 0)) for i in range(3)] for p in PTS]
    # C11: the obligation is about one big-integer back end; replay on the crate built with that feature where it builds offline
    be = "ibig"
    parts = ob.name.split(".")
    if parts[0] == "C11" and len(parts) > 1 and parts[1] in ("dashu", "malachite", "num_bigint"): be = parts[1]
    note = ""
    try:
        a = replay_requests([{"op": "in_sphere_exact", "pts": pts}], backend=be, timeout=600)[0]
    except Exception as e:
        a, note = replay_requests([{"op": "in_sphere_exact", "pts": pts}])[0], "back end %s does not build here (%s): replayed on ibig" % (be, str(e)[:120]); be = "ibig"
    d = py_det(pts)
    oracle = float((d > 0) - (d < 0))
    return {"input": pts, "backend_feature": be, "real_result": a, "oracle_sign": oracle, "reproduced": a.get("r") != oracle, "note": note}
