"""C05 — total and robust on boundary and degenerate inputs: the exact-arithmetic boundary (claimed part)."""
from . import grid, e3sets, clipwire, halfspace, surfaces
from .. import smt, runner, kani
from .c10 import A_ROUND


def run(tier, seed):
    obs, units, extra = grid.e2_obligations("C05", parts=("iloc_real", "right_loc"))
    fns = [{"fn": u.label, "slice_sha": u.sha} for u in units]
    o2, f2 = clipwire.obligations("C05"); obs += o2; fns += f2
    # 'a single generator', 'n = 1, 2': nothing the neighbour search hands over is dropped before it is clipped or ends the loop
    from . import faces
    o4, m4 = faces.bisector_obligations("C05")
    obs += [x for x in o4 if "every_candidate" in x.name or "loop_runs_over" in x.name or x.expect_sat]; fns.append(m4)
    for f in (halfspace.new_obligations, halfspace.clip_obligations):
        o3, u3 = f("C05"); obs += o3; fns += [{"fn": u.label, "slice_sha": u.sha} for u in u3]
    smt.discharge_all(obs, tier)
    results = [runner.from_smt(o) for o in obs]
    # 'exact and near-exact (perturbation 0..1e-6) lattices ... terminates without panicking': NOT decided by any contract - bounded stand-ins
    U = "Voronoi::build on m^d lattices with perturbed generators (public API, real crate)"
    n1, b1 = surfaces.lattice_probe((0.0, 1e-11, 5e-11, 1e-9, 1e-6), seeds=(0, 1) if tier == "quick" else (0, 1, 2, 3, 4, 5))
    results.append(surfaces.result("C05.bounded.exact_lattices_and_lattices_perturbed_by_1e-11_to_1e-6_build_and_tile_the_box", U,
                                   "%d tessellations: 4^3, 3^3, 5^2 lattices, periodic and reflective, perturbation amplitudes 0, 1e-11, 5e-11, 1e-9, 1e-6", n1, b1))
    n2, b2 = surfaces.lattice_probe((1e-15, 1e-14, 1e-13), seeds=(0,) if tier == "quick" else (0, 1, 2))
    results.append(surfaces.result("C05.bounded.lattices_perturbed_by_1e-15_to_1e-13_build_and_tile_the_box", U,
                                   "%d tessellations: the same lattices, perturbation amplitudes 1e-15, 1e-14, 1e-13", n2, b2))
    results += grid.kani_results("C05", tier)
    results += kani.run_specs("C05", e3sets.HALF_SPACE, tier)
    fns += [{"fn": x, "backend": "Kani on the real crate"} for x in (grid.UNIT_E3, e3sets.U_HS_NEW, e3sets.U_HS_CLIP, e3sets.U_DOT)]
    meta = {
        "level": "proof", "functions": fns,
        "assumptions": ["A-REAL for the E2 obligations (iloc rescaling, right_loc, wiring slice)", A_ROUND, e3sets.A_DOT,
                        "E3 iloc windows as in C10; HalfSpace contracts: |n_i| <= 4, |p_i|, |v_i| <= 1e150 (complete over all bit patterns in range)",
                        "in the wiring slice the callees (HalfSpace::clip, right_loc, iloc, in_sphere_test_exact) are replaced by their contracts: answers in {-1,0,+1}",
                        "NOT decided: absence of the three panic sites (det != 0 in intersect_planes, 'No suitable vertex', NaN in max_by) for all valid inputs; termination of "
                        "build (finiteness of the neighbour iterator); that errb bounds the rounding error of n.v - d for every vertex v (errb does not depend on v; only the "
                        "necessary part is proved: errb dominates gamma_3 * sum|n_i p_i|, the rounding error of the offset d = n.p itself); "
                        "'returns finite values that satisfy C01-C04' (composed float algorithm)"],
        "trusted_base": ["vx (syn 2 dump)", "vlib/symex.py", "z3 4.8.12 / z3 5.1 / cvc5 1.0", "Kani 0.68 / CBMC 6.11 IEEE-754 model, CaDiCaL"],
        "extra_cov": extra,
        "explanation": "Grid domain for every queryable position including generators exactly on walls, edges and corners (closed interval; reals for all boxes, bits for the "
                       "stated windows); the float filter HalfSpace::{new,clip} under kani::requires/ensures on the real functions (error bound finite and positive, answer one "
                       "of -1/0/+1, 0 iff within the error bound, never NaN), with glam's dot product under its own proved contract; the wiring of the exact path in "
                       "clip_by_plane (five grid points in order, consulted iff the filter says 0, vertex removed iff the deciding sign is negative, on-sphere ties keep the vertex); "
                       "right_loc of a wall is the mirror image of the generator.",
    }
    meta["assumptions"] = list(meta["assumptions"]) + kani.scan_assumptions()
    return results, meta
