"""C07 — partial construction: face bookkeeping under a mask (claimed for the bookkeeping sentence + frame argument)."""
from . import rules
from .. import smt, runner, extract


def run(tier, seed):
    obs, fns = rules.emit_obligations("C07", want=("partial", "sym"))   # "sym": the same rule in the symmetric face integrals
    for o in obs:
        if ".emit." in o.name and not o.expect_sat: o.replay = rules.replay_pair
    o2, f2 = rules.constructed_iff_selected_obligations("C07"); obs += o2; fns += f2
    try:
        obs.append(rules.frame_mask_obligation("C07"))
    except extract.Undecided as e:
        from ..smt import LostUnit
        obs.append(LostUnit("C07.frame.unit_not_evaluated", "Undecided: %s" % e, "voronoi_cell.rs / convex_cell.rs (syntactic frame check)"))
    smt.discharge_all(obs, tier)
    results = [runner.from_smt(o) for o in obs]
    meta = {
        "level": "proof", "functions": fns,
        "assumptions": ["'bitwise the same volume, centroid, radius as in the full build' is argued by the frame obligation (mask is read only by the sliced predicate and the "
                        "construct-or-default condition), not proved as a 2-safety property",
                        "#[derive(Default)] gives VoronoiCell::default() zero volume and centroid (Rust semantics)",
                        "faces are only ever emitted by constructed cells: from_convex_cell is called only in the selected branch (syntactic obligations)"],
        "trusted_base": ["vx (syn 2 dump)", "vlib/symex.py", "z3 4.8.12 / z3 5.1 / cvc5 1.0"],
        "explanation": "For arbitrary masks: count(i,j) = [sel i and emit(i->j)] + [sel j and emit(j->i)] equals 1 iff some side is selected; with exactly one side selected that side "
                       "is the left cell; a cell is constructed iff it has no mask or its bit is set, on both routes.",
    }
    return results, meta
