"""C20 — auxiliary structures: the uniform-grid k-nearest-neighbour search (space.rs) and the bounding-sphere solvers
(bounding_sphere.rs).  E2 contracts on the mechanisms the search's correctness rests on (the grid tiles the box, particles are binned
into the cell that contains them, the two pruning bounds are lower bounds), + bounded stand-ins on the real code for the results
themselves (knn against brute force; spheres contain their points)."""
import itertools, random
from .. import terms as tm, symex, extract, smt, runner
from ..terms import Var, Const, And, Or, Not, Eq, Lt, Le, Ge, Gt, Ite, Implies, TRUE, FALSE
from ..symex import Vec, Struct, Opt, SymArr, Arr
from ..e2 import *
from ..runner import Result

SP = "space.rs"
import os
from .. import verus
SPEC20 = os.path.join(extract.VERIF, "contracts", "c20.vspec")
LAYOUT20 = [("struct_keep", "space.rs", "Space", "VxSpace", ["cdim"]), ("text", "text grid specs"), ("impl", "impl VxSpace", [("space.rs", "Space::get_cid")]),
            ("struct", "geometry.rs", "Sphere"), ("struct", "bounding_sphere.rs", "Welzl"), ("text", "text specs"),
            ("impl", "impl Welzl", [("bounding_sphere.rs", "Welzl::bounding_sphere_recursive"), ("bounding_sphere.rs", "Welzl::bounding_sphere@BoundingSphereSolver")])]
FNS20 = {
    "get_cid": "get_cid.machine_integers_row_major_index_in_range_none_iff_outside_no_overflow_below_2_32_cells",
    "lemma_row_major_in_range": "get_cid.lemma.row_major_index_in_range",
    "bounding_sphere_recursive": "welzl.recursion_terminates_never_panics_restores_both_work_vectors_and_equals_the_functional_spec",
    "bounding_sphere": "welzl.entry_point_is_the_recursion_on_all_points_with_empty_boundary",
    "lemma_result_is_sphere_through_input_points": "welzl.lemma.result_is_the_sphere_through_at_most_four_of_the_input_points",
    "lemma_two_or_more_points_never_yield_the_placeholder": "welzl.lemma.two_or_more_points_never_yield_the_zero_radius_placeholder",
    "lemma_support_bounded": "welzl.lemma.support_is_bounded_by_the_number_of_points",
    "witness_contracts_are_satisfiable": "welzl.witness.contracts_are_satisfiable",
}
UNIT20 = "space::Space::get_cid, bounding_sphere::Welzl::{bounding_sphere_recursive, bounding_sphere} (Verus, bodies verbatim)"


def welzl_verus(tier):
    """E1: the exact solver's recursion and entry point, bodies verbatim, against a functional spec (+ frame, no-panic, termination), and
    two lemmas over that spec. A lost anchor / rejected file makes this unit undecided, never an alarm."""
    try:
        text, slices, spec = verus.assemble(SPEC20, LAYOUT20)
        r = verus.run("c20", text, timeout=300 if tier == "quick" else 900, extra=("--triggers-mode", "silent"))
        results = verus.results_per_function("C20", r, text, dict(FNS20), UNIT20)
    except extract.Undecided as e:
        text, slices = "", []
        results = [Result("C20." + lbl, "E1", "undecided", 0.0, "verus", "unit not assembled: %s" % e, UNIT20) for lbl in FNS20.values()]
    for x in results:
        if x.name.endswith("witness.contracts_are_satisfiable"):
            x.backend = "guard"
            if x.status == "discharged": x.status = "vacuity-ok"
    return results, slices, text
XF = ("part.rs",)
I0 = Const(0, "Int")
R1 = Const(1, "Real")
from fractions import Fraction
EPS10 = Const(Fraction(1, 10 ** 10), "Real")


@isolated('grid')
def grid_obligations(prefix):
    """Space::new: `cdim = ceil(width / max_cell_width)`, `c_width = width / cdim`, and the cell literal in the loop nest."""
    u = Unit(SP, "Space::new")
    obs = []
    A, W, mx = vec("anchor"), vec("width"), real("max_cell_width")
    stmts = u.fn["body"]["stmts"]
    fors = [i for i, s_ in enumerate(stmts) if (s_.get("e") or {}).get("k") == "for"]
    if len(fors) != 1: raise extract.Undecided("lost anchor: the cell loop nest of Space::new")
    ctx = symex.Ctx(); ctx.resolver = u.resolver(XF)
    v, env, ctx, it = symex.run_stmts(stmts[:fors[0]], {"anchor": A, "width": W, "max_cell_width": mx}, ctx, u.auto_consts(XF), "Space")
    cdim, cw = env.vars.get("cdim"), env.vars.get("c_width")
    if not isinstance(cdim, Vec) or not isinstance(cw, Vec): raise extract.Undecided("lost anchor: cdim / c_width in Space::new")
    pre = [Gt(mx, R0)] + [Gt(w, R0) for w in W.c]
    P = pre + ctx.assume + ctx.ok
    lab = u.label + " / statements before the loop nest"
    obs.append(Obligation(prefix + ".grid.requires_satisfiable", P, TRUE, lab, expect_sat=True))
    obs.append(Obligation(prefix + ".grid.defined", P, And(*[Implies(o.pc, o.cond) for o in ctx.obls]) if ctx.obls else TRUE, lab))
    obs.append(Obligation(prefix + ".grid.cells_per_axis_times_cell_width_is_the_box_width_cells_no_wider_than_requested", P,
                          And(*[And(Ge(cdim.c[a], Const(1, "Real")), Eq(cdim.c[a] * cw.c[a], W.c[a]), Le(cw.c[a], mx)) for a in range(3)]), lab))
    # the cell literal, innermost loop body
    loops = extract.find_nodes(stmts[fors[0]], lambda n: n.get("k") == "for")
    if len(loops) != 3: raise extract.Undecided("lost anchor: three nested loops (i, j, k) in Space::new")
    names = [l["pat"].get("name") for l in loops]
    lits = extract.find_nodes(loops[2]["body"], lambda n: n.get("k") == "struct" and n["path"][-1] == "Cell")
    if len(lits) != 1 or None in names: raise extract.Undecided("lost anchor: `Cell { .. }` in the innermost loop of Space::new")
    ijk = [Var("cell_" + nm, "Int", "u32") for nm in names]
    cwv = vec("c_width")
    ctx2 = symex.Ctx(); ctx2.resolver = u.resolver(XF)
    it2 = symex.Interp(ctx2, {})
    env2 = symex.Env(ctx2, dict({"anchor": A, "c_width": cwv}, **{nm: v_ for nm, v_ in zip(names, ijk)}), TRUE, "Space")
    cell = it2.ev(env2, lits[0])
    P2 = [Ge(x, I0) for x in ijk] + [Gt(c, R0) for c in cwv.c] + ctx2.assume + ctx2.ok
    want = Vec([A.c[a] + tm.ToReal(ijk[a]) * cwv.c[a] for a in range(3)])
    lab2 = u.label + " / `Cell { .. }` in the loop nest over (i, j, k)"
    obs.append(Obligation(prefix + ".grid.cell_ijk_spans_anchor_plus_ijk_times_cell_width_on_every_axis", P2,
                          And(veq(cell.f["loc"], want), veq(cell.f["width"], cwv)), lab2, replay=replay_grid,
                          note="'for any box shape (cubic or not)': the cells must tile the box; cell (i, j, k) is [anchor + (i, j, k) * c_width, + c_width]"))
    # storage order: cells are pushed in the order get_cid enumerates them (i slowest, k fastest)
    ug = Unit(SP, "Space::get_cid")
    cd = Vec([Var("cdim_%s" % a, "Int", "u32") for a in "xyz"])
    sp = Struct("Space", {"cdim": cd})
    gi = [Var("q_%s" % a, "Int", "i32") for a in "ijk"]
    r, env3, ctx3, _ = ug.run({"self": sp, "i": gi[0], "j": gi[1], "k": gi[2]})
    inr = And(*[And(Le(I0, gi[a]), Lt(gi[a], cd.c[a])) for a in range(3)])
    P3 = [Gt(c, I0) for c in cd.c] + ctx3.assume + ctx3.ok
    obs.append(Obligation(prefix + ".get_cid.some_iff_in_range_and_row_major_index", P3,
                          And(Eq(r.some, inr), Implies(inr, Eq(r.val, gi[0] * cd.c[1] * cd.c[2] + gi[1] * cd.c[2] + gi[2]))), ug.label,
                          note="u32 wrap-around of the product is not modelled (grids with fewer than 2^32 cells)"))
    return obs, [{"fn": lab, "slice_sha": u.sha}, {"fn": lab2, "slice_sha": extract.sha(extract.text_of(u.tree, lits[0]))}, {"fn": ug.label, "slice_sha": ug.sha}]


@isolated('binning')
def binning_obligations(prefix):
    """add_parts: the cell index computed for a particle is the cell that contains it (given the tiling above). The per-particle closure is
    run (helpers it calls are inlined) up to its call of get_cid: the (i, j, k) handed to get_cid are what is under contract, however they
    are computed."""
    u = Unit(SP, "Space::add_parts")
    cls = [c for c in extract.find_nodes(u.fn["body"], lambda n: n.get("k") == "closure") if len(c["params"]) == 1 and c["params"][0].get("k") == "ptuple"]
    if not cls: raise extract.Undecided("lost anchor: the per-particle map closure of add_parts")
    cl = cls[0]
    A, W = vec("anchor"), vec("width")
    cd = Vec([Var("cdim_%s" % a, "Int", "u32") for a in "xyz"])
    px = vec("p_x")
    sp = Struct("Space", {"anchor": A, "width": W, "cdim": cd})
    ctx = symex.Ctx(); ctx.resolver = u.resolver(XF)
    box = {}
    def hook(interp, env, node, args):
        box["args"] = list(args); box["pc"] = env.pc
        raise symex.StopExecution("get_cid")
    ctx.contracts["Space::get_cid"] = hook
    it = symex.Interp(ctx, {}); it.tolerant = True
    env = symex.Env(ctx, {"self": sp}, TRUE, "Space")
    try:
        it.call_closure(env, symex.Closure(cl, env), [symex.Tup([Var("pid", "Int", "usize"), px])])
    except symex.StopExecution:
        pass
    if "args" not in box or len(box["args"]) < 4: raise extract.Undecided("lost anchor: add_parts no longer hands (i, j, k) to get_cid")
    idx = box["args"][-3:]
    if any(not (isinstance(x, tm.T) and x.sort == "Int") for x in idx): raise extract.Undecided("add_parts: the cell index handed to get_cid is not an integer")
    pre = [Gt(w, R0) for w in W.c] + [Gt(c, I0) for c in cd.c]
    P = pre + ctx.assume + ctx.ok + [box["pc"]]      # ctx.ok carries the function's own assert!: the particle lies in the half-open box
    lab = u.label + " / per-particle closure up to the call of get_cid"
    obs = [Obligation(prefix + ".binning.requires_satisfiable", P, TRUE, lab, expect_sat=True)]
    goals = []
    for a in range(3):
        cwa = W.c[a] / tm.ToReal(cd.c[a])
        rel = px.c[a] - A.c[a]
        ia = idx[a]
        goals.append(And(Le(I0, ia), Lt(ia, cd.c[a]), Le(tm.ToReal(ia) * cwa, rel), Lt(rel, (tm.ToReal(ia) + Const(1, "Real")) * cwa)))
    o = Obligation(prefix + ".binning.particle_is_binned_into_the_cell_that_contains_it", P, And(*goals), lab,
                   note="over the reals; cell (i,j,k) spans [anchor + (i,j,k) * width/cdim, + width/cdim] by the grid obligations")
    o.havoc = has_havoc(idx)
    obs.append(o)
    return obs, [{"fn": lab, "slice_sha": extract.sha(extract.text_of(u.tree, cl))}]


@isolated('prune')
def pruning_obligations(prefix):
    """The two bounds the ring search prunes with are lower bounds (so pruning never discards a nearer particle)."""
    obs, fns = [], []
    loc, w, pos, q = vec("cell_loc"), vec("cell_width"), vec("pos"), vec("q")
    cell = Struct("Cell", {"loc": loc, "width": w, "offset": Var("off", "Int"), "count": Var("cnt", "Int")})
    u = Unit(SP, "Cell::min_distance_squared")
    r, env, ctx, it = u.run({"self": cell, "pos": pos}, extra_files=XF)
    inq = [And(Le(loc.c[a], q.c[a]), Le(q.c[a], loc.c[a] + w.c[a])) for a in range(3)]
    P = [Gt(x, R0) for x in w.c] + inq + ctx.assume + ctx.ok
    obs.append(Obligation(prefix + ".prune.requires_satisfiable", P, TRUE, u.label, expect_sat=True))
    obs.append(Obligation(prefix + ".prune.min_distance_squared_is_a_lower_bound_for_every_point_of_the_cell", P, Le(r, norm2(sub(q, pos))), u.label, timeout=120,
                          note="a cell is skipped when the k-th best distance is below this bound: no particle in it can be nearer"))
    fns.append({"fn": u.label, "slice_sha": u.sha})
    u2 = Unit(SP, "Cell::min_distance_to_face")
    r2, env2, ctx2, _ = u2.run({"self": cell, "pos": pos}, extra_files=XF)
    inp = [And(Le(loc.c[a], pos.c[a]), Le(pos.c[a], loc.c[a] + w.c[a])) for a in range(3)]
    outside = Or(*[Or(Lt(q.c[a], loc.c[a]), Gt(q.c[a], loc.c[a] + w.c[a])) for a in range(3)])
    P2 = [Gt(x, R0) for x in w.c] + inp + [outside] + ctx2.assume + ctx2.ok
    obs.append(Obligation(prefix + ".prune.min_distance_to_face_is_a_lower_bound_for_every_point_outside_the_cell", P2,
                          And(Ge(r2, R0), Le(r2 * r2, norm2(sub(q, pos)))), u2.label, timeout=120,
                          note="ring r lies at least dist_to_face + (r - 1) * min cell width away: the search may stop once that exceeds the k-th best distance"))
    fns.append({"fn": u2.label, "slice_sha": u2.sha})
    return obs, fns


@isolated('ring')
def ring_bound_obligations(prefix):
    """The termination test of the ring search: after rings 0..r, `dist_to_face + r * <cell width>` must be a lower bound for the distance to any
    point of a cell at Chebyshev ring distance >= r + 1 - for cells that are not cubes too (the statement is evaluated from the source)."""
    u = Unit(SP, "Space::knn")
    lets = extract.find_nodes(u.fn["body"], lambda n: n.get("k") == "let" and n["pat"].get("name") == "min_dist_to_ring")
    if len(lets) != 1: raise extract.Undecided("lost anchor: let min_dist_to_ring in Space::knn")
    loc, w, pos, q = vec("cell_loc"), vec("cell_width"), vec("pos"), vec("q")
    cell0 = Struct("Cell", {"loc": loc, "width": w, "offset": Var("off", "Int"), "count": Var("cnt", "Int")})
    um = Unit(SP, "Cell::min_distance_to_face")
    dtf, _, ctxm, _ = um.run({"self": cell0, "pos": pos}, extra_files=XF)
    # the ring index is relaxed to a non-negative REAL (the bound is then proved for more values than needed): keeps the query in pure real arithmetic
    r = Var("r", "Real")
    cells = SymArr(lambda i: Struct("Cell", {"loc": vec("other_loc"), "width": w, "offset": Var("o2", "Int"), "count": Var("c2", "Int")}))   # every cell has the same width (grid obligations)
    ctx = symex.Ctx(); ctx.resolver = u.resolver(XF)
    it = symex.Interp(ctx, {})
    env = symex.Env(ctx, {"self": Struct("Space", {"cells": cells}), "dist_to_face": dtf, "r": r}, TRUE, "Space")
    bound = it.ev(env, lets[0]["init"])
    inp = [And(Le(loc.c[a], pos.c[a]), Le(pos.c[a], loc.c[a] + w.c[a])) for a in range(3)]
    d = Var("ring", "Real")
    obs = []
    base = [Gt(x, R0) for x in w.c] + inp + [Ge(r, R0), Ge(d, r + Const(1, "Real"))] + ctx.assume + ctx.ok + ctxm.assume + ctxm.ok
    obs.append(Obligation(prefix + ".ring.requires_satisfiable", base, TRUE, u.label + " / let min_dist_to_ring", expect_sat=True))
    goals = []
    for a in range(3):
        # q lies in a cell whose index along axis a differs by +d resp. -d from the particle's cell
        up = Ge(q.c[a], loc.c[a] + tm.ToReal(d) * w.c[a])
        dn = Le(q.c[a], loc.c[a] + w.c[a] - tm.ToReal(d) * w.c[a])
        goals.append(Implies(Or(up, dn), And(Ge(bound, R0), Le(bound * bound, norm2(sub(q, pos))))))
    for a, g_ in zip("xyz", goals):
        obs.append(Obligation(prefix + ".ring.termination_bound_is_a_lower_bound_for_every_cell_beyond_ring_r_along_%s_also_for_non_cubic_cells" % a, base, g_, u.label + " / let min_dist_to_ring",
                              timeout=120, replay=lambda ob: _as_replay(knn_probe(20260930, 8))))
    return obs, [{"fn": u.label + " / let min_dist_to_ring", "slice_sha": extract.sha(extract.text_of(u.tree, lets[0]))}]


@isolated('welzl')
def welzl_entry_obligations(prefix):
    """Welzl::bounding_sphere is nothing but the recursion started on all points with an empty boundary (no shortcut that bypasses it)."""
    u = Unit("bounding_sphere.rs", "Welzl::bounding_sphere@BoundingSphereSolver")
    pts = SymArr(lambda i: vec("pt")); pts.length = Var("n_points", "Int", "usize")
    name, args, env_at, ctx = run_until_call(u, {"points": pts}, ("Welzl::bounding_sphere_recursive",), extra_files=("geometry.rs",), self_ty="Welzl")
    early = Or(*[c for c, _ in env_at.returns]) if env_at.returns else FALSE
    o = Obligation(prefix + ".welzl.entry_point_reaches_the_recursion_for_every_input_no_shortcut", ctx.assume, And(Not(early), env_at.pc), u.label,
                   note="whatever the number of points: no early return in front of the recursive solver", replay=lambda ob: _as_replay(sphere_probe(20260930, 30)))
    o.havoc = True      # a structural fact: a shortcut may be harmless (e.g. for the empty set), so a refutation counts only if the probe reproduces a wrong sphere
    return [o], [{"fn": u.label, "slice_sha": u.sha}]


@isolated('sphere_contains')
def contains_obligations(prefix):
    """Sphere::contains, the test Welzl's recursion (and every caller of the solvers) decides containment with. From the property ('spheres
    containing all given points'): a point reported as contained is within the radius up to the stated relative tolerance, a point within
    the radius of a proper sphere is reported as contained, and the zero-radius sphere -- Sphere::EMPTY, which from_boundary_points returns
    for 0 or 1 boundary points as 'no sphere yet' -- contains NO point (not even its own centre), so that the recursion adds the next
    point to the boundary instead of accepting the placeholder as a solution."""
    u = Unit("geometry.rs", "Sphere::contains")
    c, r, x = vec("sph_c"), real("sph_r"), vec("x")
    sp = Struct("Sphere", {"center": c, "radius": r})
    res, env, ctx, _ = u.run({"self": sp, "x": x})
    P = ctx.assume + ctx.ok
    d2 = norm2(sub(x, c))
    rp = lambda ob: _as_replay(sphere_probe(20260930, 12))
    obs = [
        Obligation(prefix + ".contains.reported_contained_implies_within_radius_up_to_relative_1e-10", P + [res], Le(d2, r * r * (R1 + EPS10)), u.label, replay=rp),
        Obligation(prefix + ".contains.within_radius_of_a_proper_sphere_implies_reported_contained", P + [Gt(r, R0), Le(d2, r * r)], res, u.label, replay=rp),
        Obligation(prefix + ".contains.placeholder_sphere_of_radius_zero_contains_no_point", P + [Eq(r, R0)], Not(res), u.label, replay=rp),
        Obligation(prefix + ".contains.requires_satisfiable", P + [res], TRUE, u.label, expect_sat=True),
    ]
    return obs, [{"fn": u.label, "slice_sha": u.sha}]


@isolated('from_boundary_points')
def placeholder_obligations(prefix):
    """Sphere::from_boundary_points: the two facts Welzl's recursion (E1 unit) takes as hypotheses about this callee -- fewer than two boundary
    points give the zero-radius placeholder, and it panics exactly for more than four points (the E1 stub's `requires`)."""
    u = Unit("geometry.rs", "Sphere::from_boundary_points")
    pts = SymArr(lambda i: vec("pt")); pts.length = Var("n_points", "Int", "usize")
    r, env, ctx, _ = u.run({"points": pts})
    n = pts.length
    dom = [Ge(n, I0)]
    rp = lambda ob: _as_replay(sphere_probe(20260930, 12))
    # the indexing obligations points[0..3] inside the arms are bounds checks (ctx.panics); the explicit `panic!` arm is one of them as well
    no_panic = And(*[Implies(o.pc, o.cond) for o in ctx.panics]) if ctx.panics else TRUE
    obs = [
        Obligation(prefix + ".from_boundary_points.fewer_than_two_points_give_the_zero_radius_placeholder", ctx.assume + ctx.ok + dom + [Le(n, Const(1, "Int"))],
                   Eq(r.f["radius"], R0), u.label, replay=rp),
        Obligation(prefix + ".from_boundary_points.never_panics_for_at_most_four_points", ctx.assume + dom + [Le(n, Const(4, "Int"))], no_panic, u.label, replay=rp),
        Obligation(prefix + ".from_boundary_points.requires_satisfiable", ctx.assume + ctx.ok + dom + [Le(n, Const(1, "Int"))], TRUE, u.label, expect_sat=True),
    ]
    return obs, [{"fn": u.label, "slice_sha": u.sha}]


def _as_replay(res):
    n, bad = res
    return {"reproduced": bad is not None, "searched": n, "mismatch": bad}


# ---------------------------------------------------------------- replay / bounded stand-ins on the real code
def replay_grid(ob=None):
    """Space::new on non-cubic boxes through the hook: the cells must tile the box."""
    from ..runner import replay_requests
    bad = []
    for anchor, width, mx in (([0, 0, 0], [1.0, 1.2, 1.7], 0.5), ([1, -2, 3], [2.0, 2.0, 2.0], 0.5), ([0, 0, 0], [3.0, 1.0, 0.6], 0.45)):
        rq = {"op": "space_cells", "anchor": anchor, "width": width, "max_cell_width": mx}
        a = replay_requests([rq])[0]
        cells = a.get("cells", [])
        if not cells: bad.append({"request": rq, "real": a}); continue
        import math
        cd = [math.ceil(width[i] / mx) for i in range(3)]
        cw = [width[i] / cd[i] for i in range(3)]
        want = [[anchor[0] + i * cw[0], anchor[1] + j * cw[1], anchor[2] + k * cw[2]] for i in range(cd[0]) for j in range(cd[1]) for k in range(cd[2])]
        got = [c["loc"] for c in cells]
        if len(got) != len(want) or any(abs(g[t] - w_[t]) > 1e-12 * (1 + abs(w_[t])) for g, w_ in zip(got, want) for t in range(3)):
            first = next((n for n, (g, w_) in enumerate(zip(got, want)) if any(abs(g[t] - w_[t]) > 1e-12 * (1 + abs(w_[t])) for t in range(3))), None)
            bad.append({"request": rq, "first_wrong_cell": first, "real_loc": got[first] if first is not None else None, "tiling_loc": want[first] if first is not None else None})
    return {"reproduced": bool(bad), "runs": bad[:2], "what": "the cells built by Space::new do not tile the box (cell origin != anchor + (i,j,k) * cell width)"}


def knn_probe(seed, n_sets):
    """Space::knn against brute force: k nearest OTHER particles in order of increasing distance, cubic and non-cubic boxes."""
    from ..runner import replay_requests
    rng = random.Random(seed)
    reqs = []
    boxes = [([0, 0, 0], [1.0, 1.0, 1.0], 0.25), ([0, 0, 0], [1.0, 1.2, 1.7], 0.5), ([1, -2, 3], [3.0, 1.0, 0.6], 0.45), ([0, 0, 0], [2.0, 2.0, 2.0], 2.0)]
    for t in range(n_sets):
        anchor, width, mx = boxes[t % len(boxes)]
        n = rng.choice([6, 40, 150])
        pos = [[anchor[a] + rng.random() * width[a] * 0.999 for a in range(3)] for _ in range(n)]
        reqs.append({"op": "space_knn", "anchor": anchor, "width": width, "max_cell_width": mx, "positions": pos, "k": rng.choice([0, 1, 5])})
    # anisotropic cells: a candidate in ring 1 along the LONG axis at distance dA, the true nearest neighbour in ring 2 along the SHORT axis at
    # distance dB < dA, with  dist_to_face + short width <= dB < dA < dist_to_face + long width  (a bound using the long width stops too early)
    import math
    for width in ([3.0, 2.0, 2.0], [2.0, 3.0, 2.0], [2.0, 2.0, 3.0]):
        mx = 0.75
        cd = [math.ceil(width[a] / mx) for a in range(3)]; cw = [width[a] / cd[a] for a in range(3)]
        la = max(range(3), key=lambda a: cw[a]); sa = min(range(3), key=lambda a: cw[a])
        if cw[la] - cw[sa] < 1e-9: continue
        c = [(1 + 0.5) * cw[a] for a in range(3)]                 # centre of cell (1,1,1): dist_to_face = min(cw)/2
        dtf = min(cw) / 2
        dB = dtf + cw[sa] + 0.25 * (cw[la] - cw[sa]); dA = dtf + cw[sa] + 0.75 * (cw[la] - cw[sa])
        A = list(c); A[la] += dA          # lands in the neighbouring cell along the long axis (ring 1) as long as dA < 1.5 * cw[la]
        B = list(c); B[sa] -= dB          # two cells down along the short axis needs dB > 0.5 * cw[sa] + cw[sa]... (ring 2 iff dB >= 1.5 * cw[sa])
        if not (dB >= 1.5 * cw[sa] and dA < 1.5 * cw[la] and B[sa] >= 0 and A[la] < width[la]): continue
        reqs.append({"op": "space_knn", "anchor": [0, 0, 0], "width": width, "max_cell_width": mx, "positions": [c, A, B], "k": 1})
    for rq, a in zip(reqs, replay_requests(reqs, timeout=600)):
        pos, k = rq["positions"], rq["k"]
        if "knn" not in a: return len(reqs), {"request": {k_: v for k_, v in rq.items() if k_ != "positions"}, "n": len(pos), "real": a, "what": "knn panics"}
        for i, p in enumerate(pos):
            d = sorted((sum((p[t] - q[t]) ** 2 for t in range(3)), j) for j, q in enumerate(pos) if j != i)
            want = [j for _, j in d[:k]]
            if a["knn"][i] != want:
                return len(reqs), {"request": {k_: v for k_, v in rq.items() if k_ != "positions"}, "positions": pos if len(pos) <= 40 else "%d random positions (seed %d)" % (len(pos), seed),
                                   "particle": i, "real_knn": a["knn"][i], "brute_force": want, "what": "Space::knn differs from the k nearest other particles"}
    return len(reqs), None


def sphere_probe(seed, n_sets):
    """Bounding-sphere solvers on random point sets: every point is contained (relative 1e-9); Welzl's sphere is not larger than the
    smallest sphere through any 2, 3 or 4 of the points that contains all of them (brute force, <= 7 points)."""
    from ..runner import replay_requests
    rng = random.Random(seed)
    reqs = []
    for t in range(n_sets):
        n = rng.choice([2, 3, 5, 7, 30])
        pts = [[rng.uniform(-1, 1) * (10.0 ** rng.choice([0, 0, 3])) for _ in range(3)] for _ in range(n)]
        if t % 3 == 2 and n <= 7: pts[rng.randrange(2)] = [0.0, 0.0, 0.0]      # a point exactly at the centre of the placeholder Sphere::EMPTY
        for exact in (True, False): reqs.append({"op": "bounding_sphere", "points": pts, "exact": exact})
    for pts in ([[0.0, 0.0, 0.0], [2.0, 0.0, 0.0]], [[0.0, 0.0, 0.0], [2.0, 0.0, 0.0], [1.0, 0.5, 0.0]], [[1.0, 1.0, 0.0], [0.0, 0.0, 0.0], [1.0, -1.0, 0.0], [0.5, 0.0, 0.2]]):
        for exact in (True, False): reqs.append({"op": "bounding_sphere", "points": pts, "exact": exact})
    for rq, a in zip(reqs, replay_requests(reqs, timeout=300)):
        if "c" not in a or a.get("r") is None: return len(reqs), {"request": rq, "real": a, "what": "bounding sphere solver panics / returns NaN"}
        c, r = a["c"], a["r"]
        sc = max(1.0, max(abs(x) for p in rq["points"] for x in p))
        for p in rq["points"]:
            if sum((p[t] - c[t]) ** 2 for t in range(3)) ** 0.5 > r * (1 + 1e-7) + 1e-9 * sc:
                return len(reqs), {"request": rq, "real": a, "point_outside": p, "what": "bounding sphere does not contain a given point"}
        if rq["exact"] and len(rq["points"]) <= 7:
            rmin = _min_sphere_radius(rq["points"])
            if rmin is not None and r > rmin * (1 + 1e-6) + 1e-9 * sc:
                return len(reqs), {"request": rq, "real": a, "minimal_radius_by_brute_force": rmin, "what": "the exact solver's sphere is not the minimal one"}
    return len(reqs), None


def _min_sphere_radius(pts):
    """Brute force: the minimal enclosing sphere is the smallest sphere through 2, 3 or 4 of the points (centre in their affine hull) that contains all."""
    import itertools
    def sub(a, b): return [a[i] - b[i] for i in range(3)]
    def dot(a, b): return sum(a[i] * b[i] for i in range(3))
    def cross(a, b): return [a[1] * b[2] - a[2] * b[1], a[2] * b[0] - a[0] * b[2], a[0] * b[1] - a[1] * b[0]]
    best = None
    def consider(c):
        nonlocal best
        r = max(dot(sub(p, c), sub(p, c)) for p in pts) ** 0.5
        if best is None or r < best: best = r
    for a, b in itertools.combinations(pts, 2): consider([(a[i] + b[i]) / 2 for i in range(3)])
    for a, b, c in itertools.combinations(pts, 3):
        u, v = sub(a, c), sub(b, c); n = cross(u, v); n2 = dot(n, n)
        if n2 < 1e-18 * (dot(u, u) * dot(v, v) + 1e-300): continue
        t = cross([dot(u, u) * v[i] - dot(v, v) * u[i] for i in range(3)], n)
        consider([c[i] + t[i] / (2 * n2) for i in range(3)])
    for a, b, c, d in itertools.combinations(pts, 4):
        u, v, w = sub(b, a), sub(c, a), sub(d, a)
        det = dot(u, cross(v, w))
        if abs(det) < 1e-12 * (dot(u, u) * dot(v, v) * dot(w, w)) ** 0.5 + 1e-300: continue
        t = [dot(u, u) * x + dot(v, v) * y + dot(w, w) * z for x, y, z in zip(cross(v, w), cross(w, u), cross(u, v))]
        consider([a[i] + t[i] / (2 * det) for i in range(3)])
    return best


def run(tier, seed):
    obs, fns = [], []
    for f in (grid_obligations, binning_obligations, pruning_obligations, ring_bound_obligations, welzl_entry_obligations, contains_obligations, placeholder_obligations):
        o, fn = f("C20"); obs += o; fns += fn
    smt.discharge_all(obs, tier)
    results = [runner.from_smt(o) for o in obs]
    vres, vslices, vtext = welzl_verus(tier)
    for x in vres:
        if x.status == "refuted":
            # Verus gives no counterexample: look for a failing input on the real solver
            nb, badb = sphere_probe(20260930, 30)
            x.replay = {"reproduced": badb is not None, "searched": nb, "mismatch": badb}
            x.counterexample = badb
    results += vres
    n1, bad1 = knn_probe(seed, 16 if tier == "quick" else 120)
    results.append(Result("C20.bounded.real_knn_equals_brute_force_k_nearest_in_order", "R", "discharged" if bad1 is None else "refuted", 0.0, "replay",
                          "" if bad1 is None else repr(bad1)[:3000], "space::Space::{new, add_parts, knn} (real crate, verif hook)",
                          bounded="%d random particle sets (6 / 40 / 150 particles, k in {0,1,5}) in cubic and non-cubic boxes, seed %d" % (n1, seed),
                          counterexample=bad1, replay={"reproduced": bad1 is not None, "mismatch": bad1}))
    n2, bad2 = sphere_probe(seed, 20 if tier == "quick" else 200)
    results.append(Result("C20.bounded.real_bounding_spheres_contain_all_points", "R", "discharged" if bad2 is None else "refuted", 0.0, "replay",
                          "" if bad2 is None else repr(bad2)[:3000], "bounding_sphere::{Welzl, Epos6}::bounding_sphere (real crate, verif hook)",
                          bounded="%d solver runs on random point sets of 2..30 points, two scales, seed %d" % (n2, seed),
                          counterexample=bad2, replay={"reproduced": bad2 is not None, "mismatch": bad2}))
    meta = {
        "level": "proof", "functions": fns + vslices + [{"fn": "space::Space::knn (bounded stand-in only)", "backend": "replay"}, {"fn": "bounding_sphere::Epos6 and the containment / minimality of Welzl's result (bounded stand-in only)", "backend": "replay"}],
        "assumptions": verus.scan_assumptions(vtext) + [
                        "E1 (Welzl): Sphere::from_boundary_points and Sphere::contains enter as uninterpreted functions of their arguments (external_body stubs; "
                        "from_boundary_points REQUIRES at most four points - its `_ => panic!` arm); slice::to_vec is an element-wise copy (assume_specification); "
                        "the second lemma takes two facts about the callees as hypotheses: from_boundary_points of fewer than two points is the zero-radius placeholder "
                        "(read off its match arms, not proved) and such a sphere contains no point (E2 obligation C20.contains.placeholder_sphere_of_radius_zero_contains_no_point)",
                        "NOT proved for Welzl: that the result contains all points and is minimal (Welzl's lemma: geometry of minimal spheres) - bounded stand-in only",
                        "A-REAL for the E2 obligations: ceil / floor / division over the reals - the float evaluation of `rel / width * cdim` is not analysed",
                        "get_cid over MACHINE integers is proved in Verus under the precondition cdim.x*cdim.y*cdim.z <= u32::MAX (no overflow, casts exact); that Space::new establishes this precondition "
                        "(it casts ceil(width/max_cell_width) to u32) is NOT proved; the i32/u32 arithmetic of get_r_ring (cid decoding, i as i32 + di) is not modelled",
                        "NOT decided: the ring-by-ring search itself (BinaryHeap bookkeeping, the termination test, get_r_ring enumerating exactly the Chebyshev ring) - iterator / heap "
                        "code outside E1/E2; Welzl's minimality and Epos6's containment for all inputs (recursion over Vec, HashSet). Both are covered by the BOUNDED stand-ins only",
                        "Sphere::{from_two/three/four_points, extend, contains} carry their own contracts under C19"],
        "trusted_base": ["Verus 0.2026.09.13 + Z3", "vlib/verus.py splice rules (W4: .expect -> vx_unwrap with precondition `is Some`)", "vx (syn 2 dump)", "vlib/symex.py", "z3 4.8.12 / z3 5.1 / cvc5 1.0", "replay crate through verif_hooks::{space_knn, space_cells, bounding_sphere}"],
        "explanation": "The mechanisms the grid search rests on, each as a contract on the real function: Space::new builds ceil(width/max) cells per axis of width width/cdim and cell "
                       "(i,j,k) spans anchor + (i,j,k)*c_width componentwise ('any box shape'); get_cid is the row-major index, None iff out of range; add_parts bins a particle "
                       "into the cell that contains it; Cell::min_distance_squared and min_distance_to_face are lower bounds, so pruning is sound. The search result and the "
                       "bounding spheres are checked against brute force on random inputs (bounded, labelled).",
    }
    return results, meta
