"""C04 — face normals point away from the left generator; unit length; centroid on the face plane; sign conventions."""
from . import faces, grid, geomhelpers, surfaces
from .. import smt, runner, extract

A_REAL = "A-REAL: f64 arithmetic is interpreted over the reals"


def replay_normal(ob):
    """Build a two-generator tessellation from the model (left generator, its mirror through the plane) and evaluate
    the violated postcondition on the real API: VoronoiFace::normal() . (right - left) > 0."""
    from ..runner import replay_requests
    m = ob.model or {}
    f = lambda k, d=0.0: float(m.get(k, d))
    loc = [f("cell_loc_x"), f("cell_loc_y"), f("cell_loc_z")]
    n = [f("cell_hs0_n_x", 1.0), f("cell_hs0_n_y"), f("cell_hs0_n_z")]
    p = [f("cell_hs0_p_x"), f("cell_hs0_p_y"), f("cell_hs0_p_z")]
    nn = sum(x * x for x in n) ** 0.5 or 1.0
    n = [x / nn for x in n]
    dist = sum((loc[i] - p[i]) * n[i] for i in range(3))
    if not (dist > 1e-6): dist = 0.25
    right = [loc[i] - 2 * dist * n[i] for i in range(3)]
    lo = [min(loc[i], right[i]) - 1.0 for i in range(3)]
    req = {"op": "build", "gens": [loc, right], "anchor": lo, "width": [abs(loc[i] - right[i]) + 2.0 for i in range(3)], "dim": 3}
    a = replay_requests([req])[0]
    bad = []
    for fc in a.get("faces", []):
        if fc["left"] == 0 and fc["right"] == 1:
            dotp = sum(fc["normal"][i] * (right[i] - loc[i]) for i in range(3))
            bad.append({"face": fc, "normal_dot_right_minus_left": dotp})
    rep = any(b["normal_dot_right_minus_left"] <= 0 for b in bad)
    return {"request": req, "faces_between_0_and_1": bad, "reproduced": rep,
            "what": "VoronoiFace::normal() of the face (left=0,right=1) points towards the left generator"}


def run(tier, seed):
    obs, fns = [], []
    o, m = faces.bisector_obligations("C04"); obs += o; fns.append(m)
    o, us = faces.face_init_obligations("C04")
    for x in o:
        if x.name.endswith("normal_points_away_from_left_generator"): x.replay = replay_normal
    obs += o; fns += [{"fn": u.label, "slice_sha": u.sha} for u in us]
    o, us = faces.accumulator_obligations("C04"); obs += o; fns += [{"fn": u.label, "slice_sha": u.sha} for u in us]
    o, us = grid.cuboid_obligations("C04"); obs += o; fns += [{"fn": u.label, "slice_sha": u.sha} for u in us]
    for name, f in (("signed_area_tri", geomhelpers.signed_area_tri), ("signed_volume_tet", geomhelpers.signed_volume_tet)):
        o, us = f("C04." + name); obs += o; fns += [{"fn": u.label, "slice_sha": u.sha} for u in us]
        for x in o:
            if not x.expect_sat and x.replay is None: x.replay = geomhelpers.replay_helper
    smt.discharge_all(obs, tier)
    results = [runner.from_smt(o) for o in obs]
    n, bad = geomhelpers.validate_translation(seed, 10 if tier == "quick" else 200)
    if bad: raise extract.Undecided("translation mismatch: %r" % bad[:2])
    # the closed-surface identities are NOT decided by any contract in reach: bounded stand-ins on the real crate, labelled
    U = "Voronoi::build (public API, real crate): per-cell closure and divergence identities"
    nc, cb = surfaces.closure_probe(seed, 60 if tier == "quick" else 600, False)
    results.append(surfaces.result("C04.bounded.real_cells_are_closed_surfaces_generators_strictly_inside_the_box", U,
                                   "%d cells of random 1D/2D/3D tessellations (1..6 generators strictly inside boxes of several sizes and offsets)", nc, cb))
    nw, wb = surfaces.closure_probe(seed, 40 if tier == "quick" else 400, True)
    results.append(surfaces.result("C04.bounded.real_cells_are_closed_surfaces_generators_exactly_on_walls", U,
                                   "%d cells of random tessellations with generators exactly on walls, edges and corners of the box", nw, wb))
    meta = {
        "level": "proof",
        "functions": fns,
        "assumptions": [A_REAL, "glam 0.27 vector algebra as in vlib/symex.py's operation table",
                        "the closure identities (sum of area*normal = 0, divergence theorem) need the whole cell to be a closed polytope (C01): NOT proved, covered by two BOUNDED stand-ins "
                        "on the real crate (generators strictly inside / exactly on walls); the second one hits an OPEN known finding (see known_findings.txt)",
                        "'every clipping plane of a cell has a unit normal pointing into the cell' is used as the data-structure invariant for face_init; it is "
                        "established by the cuboid and bisector obligations of this same check (the only two producers of HalfSpaces in the builder)"],
        "trusted_base": ["vx (syn 2 dump)", "vlib/symex.py", "vlib/ring.py", "z3 4.8.12 / z3 5.1 / cvc5 1.0"],
        "extra_cov": {"traces_validated_against_impl": n},
        "explanation": "Contracts: bisector slice of ConvexCell::build (unit inward normal, midpoint on the bisector), cuboid walls, VoronoiFaceIntegral::init "
                       "(normal away from the left generator, unit), FaceIntegrator::init labels, collect/finalize as an inductive invariant (centroid stays in the "
                       "face plane), signed area / volume conventions.",
    }
    return results, meta
