"""Kani (E3) obligations shared by several properties: harness name -> obligation label, unit, bound."""
from ..kani import H

U_GEN = "voronoi::generator::Generator::new (kani::ensures on the real fn; /verif/kani/generator_priv.rs)"
U_VALID = "voronoi::Dimensionality::vector_is_valid (kani::ensures on the real fn; /verif/kani/dims.rs)"
U_CUB = "voronoi::boundary::SimulationBoundary::cuboid (Kani on the real fn, HalfSpace::new replaced by its verified contract; /verif/kani/boundary_priv.rs)"
U_HS_NEW = "voronoi::half_space::HalfSpace::new (kani::requires/ensures/modifies on the real fn; /verif/kani/half_space_priv.rs)"
U_HS_CLIP = "voronoi::half_space::HalfSpace::clip (kani::requires/ensures/modifies on the real fn; /verif/kani/half_space_priv.rs)"
U_DOT = "glam::DVec3::dot (external; contract dot_contract proved on the real fn; /verif/kani/dotmodel.rs)"
U_PLANE_IDX = "voronoi::convex_cell::Vertex::plane_idx (Kani on the real fn; /verif/kani/convex_cell_priv.rs)"
U_WITH_FACES = "voronoi::convex_cell::ConvexCell::with_faces (Kani on the real fn; /verif/kani/convex_cell_priv.rs)"
U_SAFETY = "voronoi::convex_cell::ConvexCell::update_safety_radius (Kani on the real fn, f64::sqrt replaced by a monotone model; /verif/kani/convex_cell_priv.rs)"

GENERATOR = [
    H("generator_new_contract", "generator_new.contract_keeps_id_and_active_coordinates_zeroes_unused_ones", U_GEN, contract="Generator::new"),
    H("generator_new_ignores_unused_coordinates", "generator_new.result_independent_of_unused_coordinates", U_GEN),
    H("generator_new_cover", "generator_new.cover", U_GEN, covers=2),
]
VALID = [
    H("vector_is_valid_contract", "vector_is_valid.contract_valid_iff_unused_components_exactly_zero", U_VALID, contract="Dimensionality::vector_is_valid"),
    H("vector_is_valid_cover", "vector_is_valid.cover", U_VALID, covers=3),
]
W_Q = "window: width in [0.5, 4], |anchor| <= 4*width on the axis under contract, other axes the unit box (complete over all bit patterns in the window)"
W_T = "window: width in [1e-6, 1e6], |anchor| <= 1024*width on the axis under contract, other axes the unit box (complete over all bit patterns in the window)"
CUBOID = [
    H("cuboid_contract_x_q", "cuboid_bits.x_walls_tripled_iff_periodic", U_CUB),
    H("cuboid_contract_y_q", "cuboid_bits.y_walls_tripled_iff_periodic_and_2d_or_3d", U_CUB),
    H("cuboid_contract_z_q", "cuboid_bits.z_walls_tripled_iff_periodic_and_3d", U_CUB),
    H("cuboid_contract_x", "cuboid_bits.x_walls_wide_window", U_CUB, tiers=("thorough",)),
    H("cuboid_contract_y", "cuboid_bits.y_walls_wide_window", U_CUB, tiers=("thorough",)),
    H("cuboid_contract_z", "cuboid_bits.z_walls_wide_window", U_CUB, tiers=("thorough",)),
    H("cuboid_cover", "cuboid_bits.cover", U_CUB, covers=3),
]
HALF_SPACE = [
    H("glam_dot_satisfies_dot_contract", "dot.contract_finite_bounded_nonnegative_on_nonnegative", U_DOT),
    H("half_space_new_contract", "half_space_new.contract_errb_finite_positive_labels_passed_through", U_HS_NEW, contract="HalfSpace::new"),
    H("half_space_clip_contract", "half_space_clip.contract_zero_iff_within_error_bound_else_sign_never_nan", U_HS_CLIP, contract="HalfSpace::clip"),
    H("half_space_new_establishes_clip_pre", "half_space.new_establishes_invariant_required_by_clip", U_HS_NEW),
    H("half_space_cover", "half_space.cover", U_HS_CLIP, covers=3),
]
PLANE_IDX = [H("plane_idx_contract", "plane_idx.first_position_of_plane_in_dual_none_iff_absent", U_PLANE_IDX)]
WITH_FACES = [
    H("with_faces_rejects_one_d", "with_faces.rejects_1d", U_WITH_FACES),
    H("with_faces_rejects_two_d", "with_faces.rejects_2d", U_WITH_FACES),
    H("with_faces_accepts_three_d", "with_faces.accepts_3d_empty_cell", U_WITH_FACES),
]
SAFETY = [
    H("safety_radius_is_twice_max_vertex_distance_k3", "update_safety_radius.twice_sqrt_of_max_radius2_k3", U_SAFETY, bounded="3 vertices, all finite non-negative radius2"),
    H("safety_radius_is_twice_max_vertex_distance_k4", "update_safety_radius.twice_sqrt_of_max_radius2_k4", U_SAFETY, bounded="4 vertices, all finite non-negative radius2", tiers=("thorough",)),
]
A_DOT = ("callers of glam::DVec3::dot (HalfSpace::new, HalfSpace::clip) are verified against dot_contract + functionality (memo model); "
         "dot_contract itself is proved on the real glam function for all inputs in range")
A_SQRT = "A-SQRT: the sqrt intrinsic is modelled as an arbitrary monotone function, finite and non-negative on finite non-negative input (true of IEEE-754 sqrt); not proved"
