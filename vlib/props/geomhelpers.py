"""E2 contracts on the public geometry helpers (C19; signed measures shared with C04).

Postconditions are the defining equations from the property statement, over the reals (A-REAL)."""
from .. import terms as tm, symex, extract
from ..terms import Var, Const, And, Or, Not, Eq, Lt, Le, Ge, Gt, Ite, Implies, TRUE
from ..symex import Vec, Struct
from ..e2 import *

F = "geometry.rs"


def _on_plane(r, pl): return Eq(dot(sub(r, pl.f["p"]), pl.f["n"]), R0)


@isolated('intersect_planes')
def intersect_planes(prefix):
    u = Unit(F, "intersect_planes")
    p0, p1, p2 = plane("p0"), plane("p1"), plane("p2")
    r, env, ctx, it = u.run({"p0": p0, "p1": p1, "p2": p2})
    obs = []
    pre = []   # the function itself asserts det != 0 (ctx.ok carries it)
    guard(obs, prefix, u, pre, ctx)
    definedness(prefix, u, pre, ctx, obs)
    for i, pl in enumerate((p0, p1, p2)):
        ensure(obs, prefix, "on_plane_%d" % i, u, pre, ctx, _on_plane(r, pl))
    # the assert is exactly "normals linearly independent"
    d = det3(p0.f["n"], p1.f["n"], p2.f["n"])
    obs.append(Obligation(prefix + ".panics_iff_normals_dependent", [], Eq(And(*[Implies(o.pc, o.cond) for o in ctx.panics]), tm.Ne(d, R0)), u.label))
    return obs, [u]


@isolated('project_onto')
def project_onto(prefix):
    u = Unit(F, "Plane::project_onto")
    pl, x = plane("pl"), vec("x")
    pre = [vnonzero(pl.f["n"])]
    r, env, ctx, it = u.run({"self": pl, "point": x})
    obs = []
    guard(obs, prefix, u, pre, ctx)
    definedness(prefix, u, pre, ctx, obs)
    ensure(obs, prefix, "lands_on_plane", u, pre, ctx, _on_plane(r, pl))
    ensure(obs, prefix, "displacement_parallel_to_normal", u, pre, ctx, veq(cross(sub(r, x), pl.f["n"]), Vec([R0] * 3)))
    r2, _, ctx2, _ = u.run({"self": pl, "point": r}, ctx)
    ensure(obs, prefix, "idempotent", u, pre, ctx, veq(r2, r))
    return obs, [u]


@isolated('project_onto_intersection')
def project_onto_intersection(prefix, modular=True):
    u = Unit(F, "Plane::project_onto_intersection")
    a, b, x = plane("pa"), plane("pb"), vec("x")
    nxm = cross(a.f["n"], b.f["n"])
    pre = [vnonzero(nxm)]
    contracts = {}
    call_obls = []
    if modular:
        # callee contract of intersect_planes (proved above): requires det != 0; ensures result on the three planes
        def ip_contract(interp, env, node, args):
            q0, q1, q2 = args
            d = det3(q0.f["n"], q1.f["n"], q2.f["n"])
            interp.oblige(env, "callee-requires:intersect_planes", node, tm.Ne(d, R0))
            k = interp.ctx.fresh("ip", "Real").args[0]
            res = Vec([Var("%s_%s" % (k, c), "Real") for c in "xyz"])
            for q in (q0, q1, q2):
                interp.ctx.assume.append(Implies(tm.Ne(d, R0), _on_plane(res, q)))
            return res
        contracts["intersect_planes"] = ip_contract
    r, env, ctx, it = u.run({"self": a, "other": b, "point": x}, contracts=contracts)
    obs = []
    guard(obs, prefix, u, pre, ctx)
    definedness(prefix, u, pre, ctx, obs)
    ensure(obs, prefix, "on_first_plane", u, pre, ctx, _on_plane(r, a))
    ensure(obs, prefix, "on_second_plane", u, pre, ctx, _on_plane(r, b))
    ensure(obs, prefix, "displacement_orthogonal_to_line", u, pre, ctx, Eq(dot(sub(r, x), nxm), R0))
    # idempotence, modularly: from the three postconditions above applied twice (x -> r1 -> r2) and a linear-algebra
    # lemma: a vector orthogonal to n, m and n x m (with n x m != 0) is zero.
    n, m = a.f["n"], b.f["n"]
    dv = vec("lem_d"); ln, lm = vec("lem_n"), vec("lem_m")
    lnxm = cross(ln, lm)
    s2 = norm2(lnxm)
    # (i) expansion of d in the basis n, m, n x m (polynomial identity, no hypotheses)
    rhs = add(add(scale(dot(dv, ln), cross(lm, lnxm)), scale(dot(dv, lm), cross(lnxm, ln))), scale(dot(dv, lnxm), lnxm))
    obs.append(Obligation(prefix + ".lemma.basis_expansion", [], veq(scale(s2, dv), rhs), "lemma (code-independent)"))
    # (ii) hence d = 0 when the three products vanish and n x m != 0
    sv = real("lem_s")
    obs.append(Obligation(prefix + ".lemma.zero_if_scaled_zero", [tm.Ne(sv, R0)] + [Eq(sv * c, R0) for c in dv.c], veq(dv, Vec([R0] * 3)), "lemma (code-independent)"))
    obs.append(Obligation(prefix + ".lemma.nonzero_vector_has_nonzero_norm2", [vnonzero(dv)], tm.Ne(norm2(dv), R0), "lemma (code-independent)"))
    # (iii) composition: r1 = f(x), r2 = f(r1) known only through the contract
    r1, r2 = vec("r1"), vec("r2")
    post = lambda r, x0: [_on_plane(r, a), _on_plane(r, b), Eq(dot(sub(r, x0), nxm), R0)]
    d = sub(r2, r1)
    inst = [Implies(And(Eq(dot(d, n), R0), Eq(dot(d, m), R0), Eq(dot(d, nxm), R0), vnonzero(nxm)), veq(d, Vec([R0] * 3)))]
    obs.append(Obligation(prefix + ".idempotent", pre + post(r1, x) + post(r2, r1) + inst, veq(r2, r1), u.label,
                          note="from the contract applied twice + instance of the lemma"))
    # the lemma instance itself: orthogonal to n, m, n x m  =>  zero
    obs.append(Obligation(prefix + ".lemma.orthogonal_to_basis_is_zero",
                          [Eq(dot(dv, ln), R0), Eq(dot(dv, lm), R0), Eq(dot(dv, lnxm), R0), vnonzero(lnxm),
                           veq(scale(s2, dv), rhs), Implies(vnonzero(lnxm), tm.Ne(s2, R0))], veq(dv, Vec([R0] * 3)), "lemma (code-independent)",
                          note="uses (i) and (iii) as instantiated hypotheses"))
    return obs, [u]


@isolated('signed_volume_tet')
def signed_volume_tet(prefix):
    u = Unit(F, "signed_volume_tet")
    v = [vec("v%d" % i) for i in range(4)]
    call = lambda a, b, c, d, ctx=None: u.run({"v0": a, "v1": b, "v2": c, "v3": d}, ctx)
    r, env, ctx, it = call(*v)
    obs = []
    guard(obs, prefix, u, [], ctx)
    definedness(prefix, u, [], ctx, obs)
    spec = dot(cross(sub(v[1], v[0]), sub(v[2], v[0])), sub(v[3], v[0])) / Const(6, "Real")
    ensure(obs, prefix, "equals_triple_product_over_6", u, [], ctx, Eq(r, spec))
    for name, perm in (("swap01", (1, 0, 2, 3)), ("swap12", (0, 2, 1, 3)), ("swap23", (0, 1, 3, 2)), ("swap03", (3, 1, 2, 0))):
        rs, _, _, _ = call(*[v[i] for i in perm], ctx)
        ensure(obs, prefix, "antisymmetric_" + name, u, [], ctx, Eq(rs, -r))
    # documented convention: positive if v0,v1,v2 are counter-clockwise seen from v3 (reference tetrahedron)
    c = lambda *xs: Vec([Const(x, "Real") for x in xs])
    rr, _, cr, _ = call(c(0, 0, 0), c(1, 0, 0), c(0, 1, 0), c(0, 0, 1))
    obs.append(Obligation(prefix + ".reference_tet_is_plus_one_sixth", cr.assume, Eq(rr, Const(1, "Real") / Const(6, "Real")), u.label))
    return obs, [u]


@isolated('signed_area_tri')
def signed_area_tri(prefix):
    u = Unit(F, "signed_area_tri")
    v0, v1, v2, t = vec("v0"), vec("v1"), vec("v2"), vec("t")
    call = lambda a, b, c, d, ctx=None: u.run({"v0": a, "v1": b, "v2": c, "t": d}, ctx)
    r, env, ctx, it = call(v0, v1, v2, t)
    obs = []
    n = scale(Const(1, "Real") / Const(2, "Real"), cross(sub(v1, v0), sub(v2, v0)))
    h = dot(sub(t, v0), n)
    guard(obs, prefix, u, [], ctx)
    definedness(prefix, u, [], ctx, obs)
    ensure(obs, prefix, "square_is_area_squared", u, [], ctx, Eq(r * r, norm2(n)))
    ensure(obs, prefix, "sign_is_side_of_apex", u, [], ctx, And(Implies(Gt(h, R0), Ge(r, R0)), Implies(Lt(h, R0), Le(r, R0))))
    rs, _, _, _ = call(v0, v2, v1, t, ctx)
    ensure(obs, prefix, "antisymmetric_swap12", u, [tm.Ne(h, R0)], ctx, Eq(rs, -r))
    c = lambda *xs: Vec([Const(x, "Real") for x in xs])
    rr, _, cr, _ = call(c(0, 0, 0), c(1, 0, 0), c(0, 1, 0), c(0, 0, 1))
    obs.append(Obligation(prefix + ".reference_triangle_is_plus_half", cr.assume, Eq(rr, Const(1, "Real") / Const(2, "Real")), u.label))
    return obs, [u]


def _sphere_through(obs, prefix, u, pre, ctx, s, pts, timeout=None):
    r2 = s.f["radius"] * s.f["radius"]
    for i, p in enumerate(pts):
        ensure(obs, prefix, "passes_through_point_%d" % i, u, pre, ctx, Eq(norm2(sub(s.f["center"], p)), r2), timeout=timeout)
    ensure(obs, prefix, "radius_nonneg", u, pre, ctx, Ge(s.f["radius"], R0), timeout=timeout)


@isolated('from_two_points')
def from_two_points(prefix):
    u = Unit(F, "Sphere::from_two_points")
    a, b = vec("a"), vec("b")
    s, env, ctx, it = u.run({"a": a, "b": b})
    obs = []
    guard(obs, prefix, u, [], ctx); definedness(prefix, u, [], ctx, obs)
    _sphere_through(obs, prefix, u, [], ctx, s, [a, b])
    ensure(obs, prefix, "centre_is_midpoint", u, [], ctx, veq(scale(Const(2, "Real"), s.f["center"]), add(a, b)))
    return obs, [u]


@isolated('from_three_points')
def from_three_points(prefix):
    u = Unit(F, "Sphere::from_three_points")
    a, b, c = vec("a"), vec("b"), vec("c")
    nrm = cross(sub(a, c), sub(b, c))
    pre = [vnonzero(nrm)]
    s, env, ctx, it = u.run({"a": a, "b": b, "c": c})
    obs = []
    guard(obs, prefix, u, pre, ctx); definedness(prefix, u, pre, ctx, obs)
    _sphere_through(obs, prefix, u, pre, ctx, s, [a, b, c], timeout=120)
    ensure(obs, prefix, "centre_in_plane_of_points", u, pre, ctx, Eq(dot(sub(s.f["center"], c), nrm), R0), timeout=120)
    return obs, [u]


@isolated('from_four_points')
def from_four_points(prefix):
    u = Unit(F, "Sphere::from_four_points")
    a, b, c, d = vec("a"), vec("b"), vec("c"), vec("d")
    vol = det3(sub(b, a), sub(c, a), sub(d, a))
    pre = [tm.Ne(vol, R0)]
    s, env, ctx, it = u.run({"a": a, "b": b, "c": c, "d": d})
    obs = []
    guard(obs, prefix, u, pre, ctx); definedness(prefix, u, pre, ctx, obs)
    _sphere_through(obs, prefix, u, pre, ctx, s, [a, b, c, d], timeout=180)
    for o in obs:
        # E = |D|^2 - 4ac >= 0 (sqrt defined) is a sum-of-squares fact the solvers do not find: attempted only.
        # The pass-through identities below are discharged *given* that definedness.
        if o.name.endswith(".defined") or o.name.endswith(".radius_nonneg"): o.optional = True
    return obs, [u]


@isolated('extend')
def extend(prefix):
    u = Unit(F, "Sphere::extend")
    c, x, r = vec("c"), vec("x"), real("r")
    s0 = Struct("Sphere", {"center": c, "radius": r})
    pre = [Ge(r, R0)]
    s, env, ctx, it = u.run({"self": s0, "x": x})
    obs = []
    guard(obs, prefix, u, pre, ctx); definedness(prefix, u, pre + [Gt(r, R0)], ctx, obs)
    # `contains` (inlined) decides whether anything happens
    d2 = norm2(sub(x, c))
    tol = Const(1, "Real") + tm.Const(tm.Fraction(1, 10 ** 10), "Real")
    inside = And(Gt(r, R0), Le(d2, r * r * tol))
    ensure(obs, prefix, "unchanged_if_contained", u, pre + [inside], ctx, And(veq(s.f["center"], c), Eq(s.f["radius"], r)))
    out = pre + [Gt(r, R0), Not(inside)]
    nc, nr = s.f["center"], s.f["radius"]
    ensure(obs, prefix, "new_point_on_surface", u, out, ctx, Eq(norm2(sub(nc, x)), nr * nr), timeout=120)
    # internally tangent: |c' - c| = r' - r  (so the old sphere is inside and touches: smallest such sphere)
    ensure(obs, prefix, "old_sphere_internally_tangent", u, out, ctx, And(Ge(nr, r), Eq(norm2(sub(nc, c)), (nr - r) * (nr - r))), timeout=120)
    # centre on the segment from the old centre towards x
    ensure(obs, prefix, "centre_on_axis", u, out, ctx, veq(cross(sub(nc, c), sub(x, c)), Vec([R0] * 3)), timeout=120)
    return obs, [u]


@isolated('contains')
def contains(prefix):
    u = Unit(F, "Sphere::contains")
    c, x, r = vec("c"), vec("x"), real("r")
    s0 = Struct("Sphere", {"center": c, "radius": r})
    res, env, ctx, it = u.run({"self": s0, "x": x})
    obs = []
    guard(obs, prefix, u, [], ctx)
    d2 = norm2(sub(x, c))
    ensure(obs, prefix, "strictly_inside_positive_radius_implies_contained", u, [Gt(r, R0), Le(d2, r * r)], ctx, res)
    ensure(obs, prefix, "far_outside_not_contained", u, [Gt(d2, Const(2, "Real") * r * r)], ctx, Not(res))
    return obs, [u]


ALL = [("intersect_planes", intersect_planes), ("project_onto", project_onto),
       ("project_onto_intersection", project_onto_intersection), ("signed_volume_tet", signed_volume_tet),
       ("signed_area_tri", signed_area_tri), ("from_two_points", from_two_points),
       ("from_three_points", from_three_points), ("from_four_points", from_four_points),
       ("extend", extend), ("contains", contains)]


# ---------------------------------------------------------------- translation validation against the compiled crate
def _rnd_vec(rng): return [rng.uniform(-3, 3) for _ in range(3)]


def validate_translation(seed, n=40):
    """For each helper: the symbolic result term (what the proof is about) evaluated in floats on random inputs must
    agree with the real compiled function to 1e-9 relative."""
    import random
    from ..runner import replay_requests
    rng = random.Random(seed)
    specs = [
        ("intersect_planes", "intersect_planes", {"p0": ("plane", "n0", "p0"), "p1": ("plane", "n1", "p1"), "p2": ("plane", "n2", "p2")}, "vec"),
        ("Plane::project_onto", "project_onto", {"self": ("plane", "n", "p"), "point": ("vec", "x")}, "vec"),
        ("Plane::project_onto_intersection", "project_onto_intersection", {"self": ("plane", "n0", "p0"), "other": ("plane", "n1", "p1"), "point": ("vec", "x")}, "vec"),
        ("signed_volume_tet", "signed_volume_tet", {"v0": ("vec", "v0"), "v1": ("vec", "v1"), "v2": ("vec", "v2"), "v3": ("vec", "v3")}, "scalar"),
        ("signed_area_tri", "signed_area_tri", {"v0": ("vec", "v0"), "v1": ("vec", "v1"), "v2": ("vec", "v2"), "t": ("vec", "t")}, "scalar"),
        ("Sphere::from_two_points", "from_two_points", {"a": ("vec", "a"), "b": ("vec", "b")}, "sphere"),
        ("Sphere::from_three_points", "from_three_points", {"a": ("vec", "a"), "b": ("vec", "b"), "c": ("vec", "c")}, "sphere"),
        ("Sphere::from_four_points", "from_four_points", {"a": ("vec", "a"), "b": ("vec", "b"), "c": ("vec", "c"), "d": ("vec", "d")}, "sphere"),
        ("Sphere::extend", "extend", {"self": ("sphere", "c", "r"), "x": ("vec", "x")}, "sphere"),
    ]
    total, bad = 0, []
    for path, rname, params, kind in specs:
        u = Unit(F, path)
        ins, names = {}, {}
        for pn, spec in params.items():
            if spec[0] == "vec":
                ins[pn] = vec("tv_" + spec[1]); names[spec[1]] = ins[pn]
            elif spec[0] == "plane":
                nv, pv = vec("tv_" + spec[1]), vec("tv_" + spec[2])
                ins[pn] = Struct("Plane", {"n": nv, "p": pv}); names[spec[1]] = nv; names[spec[2]] = pv
            elif spec[0] == "sphere":
                cv, rv = vec("tv_" + spec[1]), real("tv_" + spec[2])
                ins[pn] = Struct("Sphere", {"center": cv, "radius": rv}); names[spec[1]] = cv; names[spec[2]] = rv
        res, env, ctx, it = u.run(ins)
        reqs, envs = [], []
        for _ in range(n):
            req, e = {"op": "geom", "fn": rname}, {}
            for key, val in names.items():
                if isinstance(val, Vec):
                    xs = _rnd_vec(rng); req[key] = xs
                    for c, x in zip(val.c, xs): e[c.args[0]] = x
                else:
                    x = rng.uniform(0.1, 2.0); req[key] = x; e[val.args[0]] = x
            reqs.append(req); envs.append(e)
        answers = replay_requests(reqs)
        for req, e, a in zip(reqs, envs, answers):
            total += 1
            try:
                want = eval_float(res, ctx, e)
            except Exception as ex:
                bad.append({"fn": path, "req": req, "error": repr(ex)}); continue
            if kind == "vec": ok = "r" in a and close(want, a["r"])
            elif kind == "scalar": ok = "r" in a and close(want, a["r"])
            else: ok = "c" in a and close(want["center"], a["c"]) and close(want["radius"], a["r"])
            if not ok: bad.append({"fn": path, "req": req, "real": a, "term": want})
    return total, bad


# ---------------------------------------------------------------- replay of refuted helper obligations on the real compiled functions
def _v(*xs): return list(xs)
def _sub(a, b): return [x - y for x, y in zip(a, b)]
def _add(a, b): return [x + y for x, y in zip(a, b)]
def _dot(a, b): return sum(x * y for x, y in zip(a, b))
def _cross(a, b): return [a[1] * b[2] - a[2] * b[1], a[2] * b[0] - a[0] * b[2], a[0] * b[1] - a[1] * b[0]]
def _n(a): return _dot(a, a) ** 0.5
def _num(x):
    import math
    return math.nan if x is None else float(x)
def _vec3(x): return [_num(c) for c in (x or [None] * 3)]

# helper -> (replay fn name, {request key: model variable stem | scalar name})
_RP = {
    "intersect_planes": ("intersect_planes", {"n0": "p0_n", "p0": "p0_p", "n1": "p1_n", "p1": "p1_p", "n2": "p2_n", "p2": "p2_p"}),
    "project_onto": ("project_onto", {"n": "pl_n", "p": "pl_p", "x": "x"}),
    "project_onto_intersection": ("project_onto_intersection", {"n0": "pa_n", "p0": "pa_p", "n1": "pb_n", "p1": "pb_p", "x": "x"}),
    "signed_volume_tet": ("signed_volume_tet", {"v0": "v0", "v1": "v1", "v2": "v2", "v3": "v3"}),
    "signed_area_tri": ("signed_area_tri", {"v0": "v0", "v1": "v1", "v2": "v2", "t": "t"}),
    "from_two_points": ("from_two_points", {"a": "a", "b": "b"}),
    "from_three_points": ("from_three_points", {"a": "a", "b": "b", "c": "c"}),
    "from_four_points": ("from_four_points", {"a": "a", "b": "b", "c": "c", "d": "d"}),
    "extend": ("extend", {"c": "c", "x": "x", "r": "@r"}),
    "contains": ("contains", {"c": "c", "x": "x", "r": "@r"}),
}


def _residuals(helper, q, call):
    """The defining equations of the property statement evaluated on the REAL function's output for request q.
    Returns {clause: (violated?, detail)}; tolerances are relative to the input scale (1e-7: far above rounding, far below any real defect)."""
    import math
    sc = max([1.0] + [abs(c) for k, v in q.items() if isinstance(v, list) for c in v] + [abs(v) for v in q.values() if isinstance(v, float)])
    tol = 1e-7 * sc * sc
    bad = lambda x: (not math.isfinite(x)) or abs(x) > tol
    out = {}
    a = call(q)
    if a.get("panic"): return {"*": (False, "real function panics on this input (outside the precondition)")}
    if helper == "intersect_planes":
        r = _vec3(a.get("r"))
        for i in range(3):
            e = _dot(_sub(r, q["p%d" % i]), q["n%d" % i]); out["on_plane_%d" % i] = (bad(e), e)
    elif helper == "project_onto":
        r = _vec3(a.get("r")); e = _dot(_sub(r, q["p"]), q["n"]); out["lands_on_plane"] = (bad(e), e)
        e = _n(_cross(_sub(r, q["x"]), q["n"])); out["displacement_parallel_to_normal"] = (bad(e), e)
        r2 = _vec3(call(dict(q, x=r)).get("r")); e = _n(_sub(r2, r)); out["idempotent"] = (bad(e), e)
    elif helper == "project_onto_intersection":
        r = _vec3(a.get("r"))
        e = _dot(_sub(r, q["p0"]), q["n0"]); out["on_first_plane"] = (bad(e), e)
        e = _dot(_sub(r, q["p1"]), q["n1"]); out["on_second_plane"] = (bad(e), e)
        e = _dot(_sub(r, q["x"]), _cross(q["n0"], q["n1"])); out["displacement_orthogonal_to_line"] = (bad(e), e)
        r2 = _vec3(call(dict(q, x=r)).get("r")); e = _n(_sub(r2, r)); out["idempotent"] = (bad(e), e)
    elif helper == "signed_volume_tet":
        v = [q["v%d" % i] for i in range(4)]; r = _num(a.get("r"))
        e = r - _dot(_cross(_sub(v[1], v[0]), _sub(v[2], v[0])), _sub(v[3], v[0])) / 6.0; out["equals_triple_product_over_6"] = (bad(e), e)
        for name, perm in (("swap01", (1, 0, 2, 3)), ("swap12", (0, 2, 1, 3)), ("swap23", (0, 1, 3, 2)), ("swap03", (3, 1, 2, 0))):
            rs = _num(call(dict(q, **{"v%d" % i: v[perm[i]] for i in range(4)})).get("r")); e = rs + r; out["antisymmetric_" + name] = (bad(e), e)
    elif helper == "signed_area_tri":
        v0, v1, v2, t = q["v0"], q["v1"], q["v2"], q["t"]; r = _num(a.get("r"))
        nrm = [0.5 * c for c in _cross(_sub(v1, v0), _sub(v2, v0))]; h = _dot(_sub(t, v0), nrm)
        e = r * r - _dot(nrm, nrm); out["square_is_area_squared"] = (bad(e), e)
        out["sign_is_side_of_apex"] = (bool((h > tol and r < -tol) or (h < -tol and r > tol)) or not math.isfinite(r), (h, r))
        rs = _num(call(dict(q, v1=v2, v2=v1)).get("r")); e = rs + r; out["antisymmetric_swap12"] = (abs(h) > tol and bad(e), e)
    elif helper.startswith("from_"):
        c, r = _vec3(a.get("c")), _num(a.get("r"))
        pts = [q[k] for k in "abcd" if k in q]
        for i, p in enumerate(pts):
            e = _dot(_sub(c, p), _sub(c, p)) - r * r; out["passes_through_point_%d" % i] = (bad(e), e)
        out["radius_nonneg"] = (not (r >= 0), r)
        if helper == "from_two_points": e = _n(_sub([2 * x for x in c], _add(pts[0], pts[1]))); out["centre_is_midpoint"] = (bad(e), e)
        if helper == "from_three_points":
            e = _dot(_sub(c, pts[2]), _cross(_sub(pts[0], pts[2]), _sub(pts[1], pts[2]))); out["centre_in_plane_of_points"] = (bad(e), e)
    elif helper == "extend":
        c0, r0, x = q["c"], q["r"], q["x"]; c, r = _vec3(a.get("c")), _num(a.get("r"))
        d2 = _dot(_sub(x, c0), _sub(x, c0)); inside = r0 > 0 and d2 <= r0 * r0 * (1 + 1e-10)
        if inside:
            e = _n(_sub(c, c0)) + abs(r - r0); out["unchanged_if_contained"] = (bad(e), e)
        elif r0 > 0:
            e = _dot(_sub(c, x), _sub(c, x)) - r * r; out["new_point_on_surface"] = (bad(e), e)
            e = _dot(_sub(c, c0), _sub(c, c0)) - (r - r0) ** 2; out["old_sphere_internally_tangent"] = (bad(e) or not (r >= r0 - tol), e)
            e = _n(_cross(_sub(c, c0), _sub(x, c0))); out["centre_on_axis"] = (bad(e), e)
    elif helper == "contains":
        c0, r0, x = q["c"], q["r"], q["x"]; res = a.get("r"); d2 = _dot(_sub(x, c0), _sub(x, c0))
        if r0 > 0 and d2 <= r0 * r0 * (1 - 1e-9): out["strictly_inside_positive_radius_implies_contained"] = (res is not True, res)
        if d2 > 2 * r0 * r0 * (1 + 1e-9): out["far_outside_not_contained"] = (res is not False, res)
    return out


def replay_helper(ob):
    """E2 model -> request on the real compiled helper -> the violated defining equation re-evaluated on its output;
    if the model input does not reproduce (degenerate / idealised-real corner), a seeded random search over 400 inputs."""
    import random
    from ..runner import replay_requests
    parts = ob.name.split(".")
    helper, clause = parts[1], parts[-1]
    if helper not in _RP: return {"reproduced": False, "note": "no replay mapping for " + helper}
    rname, keys = _RP[helper]
    m = ob.model or {}
    def fl(k, d=0.0):
        try: return float(tm.Fraction(str(m[k]))) if k in m else d
        except Exception:
            try: return float(m[k])
            except Exception: return d
    def mk(get):
        q = {}
        for rk, stem in keys.items():
            q[rk] = get(stem[1:], True) if stem.startswith("@") else [get("%s_%s" % (stem, ax), False) for ax in "xyz"]
        return q
    call = lambda q: replay_requests([dict(q, op="geom", fn=rname)])[0]
    tried = []
    q = mk(lambda k, scalar: fl(k, 1.0 if scalar else 0.0))
    res = _residuals(helper, q, call)
    tried.append(("model", q, res))
    rng = random.Random(20260929)
    hit = None
    def failing(res):
        return [c for c, (b, _) in res.items() if b and (c == clause or clause in ("defined",))] or \
               [c for c, (b, _) in res.items() if b and clause not in res]
    f = failing(res)
    if f: hit = ("model", q, res, f)
    n = 0
    while hit is None and n < 400:
        n += 1
        q = mk(lambda k, scalar: rng.uniform(0.2, 2.0) if scalar else rng.uniform(-3, 3))
        res = _residuals(helper, q, call)
        f = failing(res)
        if f: hit = ("random search #%d" % n, q, res, f)
    if hit is None:
        return {"reproduced": False, "model_input": tried[0][1], "searched": n, "note": "the real function satisfies the clause on the model input and on %d random inputs" % n}
    src, q, res, f = hit
    return {"reproduced": True, "source": src, "input": q, "request": dict(q, op="geom", fn=rname), "violated_clauses_on_real_code": {c: repr(res[c][1]) for c in f},
            "what": "geometry::%s called on the real crate: defining equation '%s' does not hold on its output" % (rname, f[0])}
