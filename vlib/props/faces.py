"""E2 contracts for the bisector construction, face/cell integral accumulators and face labels
(C04, C16 termination slice, C03/C06 label pass-through)."""
from .. import terms as tm, symex, extract
from ..terms import Var, Const, And, Or, Not, Eq, Lt, Le, Ge, Gt, Ite, Implies, TRUE, FALSE
from ..symex import Vec, Struct, Opt, SymArr, Arr
from ..e2 import *
from . import grid

CC = "voronoi/convex_cell.rs"
XF = ("voronoi/half_space.rs", "geometry.rs", "voronoi/generator.rs", "voronoi/integrals.rs", "voronoi/voronoi_face.rs")


def build_loop_slice():
    """The body of `for (idx, shift) in nearest_neighbours` in ConvexCell::build, verbatim from the AST."""
    u = Unit(CC, "ConvexCell::build")
    loops = extract.find_nodes(u.fn["body"], lambda n: n.get("k") == "for")
    if len(loops) != 1: raise extract.Undecided("lost anchor: the neighbour loop of ConvexCell::build")
    lp = loops[0]
    pat = lp["pat"]
    if pat["k"] != "ptuple" or len(pat["elems"]) != 2 or any(e.get("k") != "pident" for e in pat["elems"]):
        raise extract.Undecided("lost anchor: loop pattern (<neighbour index>, <shift>)")
    build_loop_slice.names = [e["name"] for e in pat["elems"]]        # whatever the two loop variables are called
    return u, lp["body"]["stmts"], extract.sha(extract.text_of(u.tree, lp["body"]))


@isolated('bisector', lambda o: ([o], {"fn": "(unit not evaluated)", "slice_sha": ""}))
def bisector_obligations(prefix):
    u, stmts, sha = build_loop_slice()
    gens = grid.sym_generators("gb_")
    idx = Var("ngb_idx", "Int")
    sh = vec("shift")
    shift = option("shift", sh)
    loc = vec("loc")
    sr = real("safety_radius")
    cell = Struct("ConvexCell", {"loc": loc, "safety_radius": sr, "idx": Var("cell_idx", "Int")})
    captured = {}
    def clip_contract(interp, env, node, args):
        captured["args"] = args; captured["pc"] = env.pc
        return symex.UNIT
    ctx = symex.Ctx()
    ctx.resolver = u.resolver(XF)
    ctx.contracts["ConvexCell::clip_by_plane"] = clip_contract
    consts = u.auto_consts(XF)
    n_idx, n_shift = build_loop_slice.names
    v, env, ctx, it = symex.run_stmts(stmts, {"generators": gens, n_idx: idx, n_shift: shift, "cell": cell,
                                              "simulation_boundary": Struct("SimulationBoundary", {})}, ctx, consts, "ConvexCell")
    if "args" not in captured: raise extract.Undecided("lost anchor: cell.clip_by_plane(..) call in the neighbour loop")
    hs = captured["args"][1]
    if not isinstance(hs, Struct) or hs.name != "HalfSpace": raise extract.Undecided("clip_by_plane's first argument is not a HalfSpace::new(..)")
    g = gens.memo[idx].f["loc"]
    ngb = Vec([Ite(shift.some, g.c[i] + sh.c[i], g.c[i]) for i in range(3)])
    distinct = [vnonzero(sub(loc, ngb))]
    P = distinct + ctx.assume + ctx.ok
    n, p = hs.f["plane"].f["n"], hs.f["plane"].f["p"]
    called = captured["pc"]
    obs = [Obligation(prefix + ".bisector.requires_satisfiable", P + [called], TRUE, u.label, expect_sat=True)]
    side = [Implies(o.pc, o.cond) for o in ctx.obls]
    obs.append(Obligation(prefix + ".bisector.defined", P, And(*side), u.label))
    E = lambda name, goal, extra=(): obs.append(Obligation(prefix + ".bisector." + name, P + [called] + list(extra), goal, u.label))
    E("neighbour_position_is_generator_plus_shift", veq(sub(scale(Const(2, "Real"), p), loc), ngb))
    E("normal_is_unit", Eq(norm2(n), Const(1, "Real")))
    E("normal_points_towards_own_generator", Gt(dot(n, sub(loc, p)), R0))
    E("normal_parallel_to_generator_difference", veq(cross(n, sub(loc, ngb)), Vec([R0] * 3)))
    E("plane_point_equidistant", Eq(norm2(sub(p, loc)), norm2(sub(p, ngb))))
    E("labels_right_is_neighbour_index_shift_passed_through",
      And(hs.f["right_idx"].some, Eq(hs.f["right_idx"].val, idx), Eq(hs.f["shift"].some, shift.some),
          Implies(shift.some, veq(hs.f["shift"].val, sh))))
    # termination slice (C16): the loop returns exactly when safety_radius < dist, otherwise it clips with that plane
    dist2 = norm2(sub(loc, ngb))
    # the candidate ENDS the loop: `return cell` or `break` (the loop is followed by the tail expression `cell` only - checked syntactically below)
    ends = [c for c, _ in env.returns] + [c for c, _ in env.breaks]
    if env.breaks:
        st_ = u.fn["body"]["stmts"]
        k_ = [i for i, s_ in enumerate(st_) if (s_.get("e") or {}).get("k") == "for"]
        if not (k_ and k_[0] == len(st_) - 2 and extract.text_of(u.tree, st_[-1]).strip() == "cell"):
            raise extract.Undecided("the neighbour loop leaves with `break` but is not directly followed by the tail expression `cell`")
    ret = Or(*ends) if ends else FALSE
    obs.append(Obligation(prefix + ".bisector.returns_iff_safety_radius_lt_distance", P + [Ge(sr, R0)],
                          And(Eq(ret, Lt(sr * sr, dist2)), Eq(called, Not(Lt(sr * sr, dist2)))), u.label, replay=replay_small_periodic))
    # no candidate is dropped: whatever (idx, shift) the iterator hands over - another generator, or a periodic image of the cell's own
    # generator (idx == cell.idx with a shift; n = 1, 2 or thin boxes) - either ends the loop (beyond the safety radius) or is clipped
    obs.append(Obligation(prefix + ".bisector.every_candidate_ends_the_loop_or_is_clipped_own_periodic_images_included", P + [Ge(sr, R0)],
                          Or(ret, called), u.label, note="the neighbour index and the cell's own index are independent symbols: equal indices are covered",
                          replay=replay_small_periodic))
    o_pre, m_pre = build_prefix_obligations(prefix)
    obs += o_pre
    meta = {"fn": u.label + " / neighbour-loop body + " + m_pre["fn"], "slice_sha": sha + "+" + m_pre["slice_sha"]}
    return obs, meta


def build_prefix_obligations(prefix):
    """ConvexCell::build from its first statement to the neighbour loop: the loop must run over the candidate sequence minus exactly its first
    element (the generator itself, unshifted - C17), nothing else filtered out: in particular not the periodic images of the cell's own generator."""
    u = Unit(CC, "ConvexCell::build")
    loops = [s_ for s_ in u.fn["body"]["stmts"] if (s_.get("e") or {}).get("k") == "for"]
    if len(loops) != 1: raise extract.Undecided("lost anchor: the neighbour loop of ConvexCell::build")
    fl = loops[0]
    pre = [s_ for s_ in u.fn["body"]["stmts"] if s_["sp"][1] <= fl["sp"][0]]
    ctx = symex.Ctx(); ctx.resolver = u.resolver(XF)
    ctx.contracts["ConvexCell::init"] = lambda interp, env, node, args: Struct("ConvexCell", {"loc": args[0], "idx": args[1], "safety_radius": real("sr0")})
    it = symex.Interp(ctx, u.auto_consts(XF)); it.tolerant = True
    it.note_params(u.fn)
    own = Var("own_idx", "Int", "usize")
    elem = lambda k: symex.Tup([Var("cand%d_idx" % k, "Int", "usize"), option("cand%d_shift" % k, vec("cand%d_shiftv" % k))])
    nn = symex.IterV("nearest_neighbours", elem)
    env = symex.Env(ctx, {"loc": vec("loc"), "idx": own, "generators": grid.sym_generators("gp_"), "nearest_neighbours": nn,
                          "simulation_boundary": Struct("SimulationBoundary", {})}, TRUE, "ConvexCell")
    if pre: it.exec_block(env, {"k": "block", "stmts": pre, "sp": [pre[0]["sp"][0], pre[-1]["sp"][1]]})
    it.tolerant = False
    try:
        over = it.ev(env, fl["e"]["e"])
    except symex.Unsupported as e:
        raise extract.Undecided("the neighbour loop of ConvexCell::build iterates over an expression outside the subset: %s" % e)
    ok = isinstance(over, symex.IterV) and over.consumed == 1 and not over.adapters
    what = "not the candidate iterator" if not isinstance(over, symex.IterV) else "consumed %d, adapters %r" % (over.consumed, list(over.adapters))
    o = Obligation(prefix + ".bisector.loop_runs_over_every_candidate_after_the_first_nothing_else_is_filtered_out", [], Const(bool(ok)), u.label + " / from entry to the neighbour loop",
                   note="abstract iterator: " + what, replay=replay_small_periodic)
    # an adapter the evaluator only knows by name may be harmless: such a refutation counts only if it replays on the real code
    o.havoc = True
    return [o], {"fn": u.label + " / from entry to the neighbour loop", "slice_sha": extract.sha("".join(extract.text_of(u.tree, s_) for s_ in pre) + extract.text_of(u.tree, fl["e"]["e"]))}


def _halfspace(tag):
    n, p = vec(tag + "_n"), vec(tag + "_p")
    return Struct("HalfSpace", {"plane": Struct("Plane", {"n": n, "p": p}), "d": real(tag + "_d"), "errb": real(tag + "_errb"),
                                "right_idx": option(tag + "_right", Var(tag + "_right", "Int")),
                                "shift": option(tag + "_shift", vec(tag + "_shiftv"))})


def sym_cell(tag="cell"):
    def factory(i):
        k = "%s_hs%d" % (tag, len(factory.made)); factory.made.append(i)
        return _halfspace(k)
    factory.made = []
    planes = SymArr(factory)
    return Struct("ConvexCell", {"idx": Var(tag + "_idx", "Int"), "loc": vec(tag + "_loc"), "clipping_planes": planes,
                                 "safety_radius": real(tag + "_sr")}), planes


@isolated('face_init')
def face_init_obligations(prefix):
    """VoronoiFaceIntegral::init (normal) and FaceIntegrator::init (labels)."""
    obs = []
    uf = Unit("voronoi/voronoi_face.rs", "VoronoiFaceIntegral::init@FaceIntegral")
    cell, planes = sym_cell()
    k = Var("plane_idx", "Int")
    r, env, ctx, it = uf.run({"cell": cell, "clipping_plane_idx": k}, extra_files=XF)
    hs = planes.memo[k]
    n, p = hs.f["plane"].f["n"], hs.f["plane"].f["p"]
    loc = cell.f["loc"]
    # data-structure invariant established by cuboid (walls) and the bisector slice: unit normals pointing into the cell
    inv = [Eq(norm2(n), Const(1, "Real")), Gt(dot(n, sub(loc, p)), R0)]
    P = inv + ctx.assume + ctx.ok
    obs.append(Obligation(prefix + ".face_init.requires_satisfiable", P, TRUE, uf.label, expect_sat=True))
    nrm = r.f["normal"]
    obs.append(Obligation(prefix + ".face_init.normal_points_away_from_left_generator", P, Lt(dot(nrm, sub(loc, p)), R0), uf.label,
                          note="from the property statement and the doc comment of VoronoiFace::normal, not from the code"))
    # closed half-space: a generator may lie exactly ON a wall of the box (valid input); the normal of that wall's face must still be the
    # outward one, i.e. minus the inward unit normal of the clipping plane
    Pc = [Eq(norm2(n), Const(1, "Real")), Ge(dot(n, sub(loc, p)), R0)] + ctx.assume + ctx.ok
    obs.append(Obligation(prefix + ".face_init.normal_is_minus_the_inward_plane_normal_also_for_a_generator_on_the_plane", Pc, veq(nrm, Vec([-c for c in n.c])), uf.label,
                          note="'pointing away from the left generator (.. or outward through the wall for boundary faces)', for the closed box",
                          replay=replay_normal_on_wall))
    obs.append(Obligation(prefix + ".face_init.normal_is_unit", P, Eq(norm2(nrm), Const(1, "Real")), uf.label))
    obs.append(Obligation(prefix + ".face_init.normal_orthogonal_to_face_plane", P, veq(cross(nrm, n), Vec([R0] * 3)), uf.label))
    obs.append(Obligation(prefix + ".face_init.accumulators_start_at_zero", P, And(Eq(r.f["area"], R0), veq(r.f["centroid"], Vec([R0] * 3))), uf.label))
    # labels
    ui = Unit("voronoi/integrals.rs", "FaceIntegrator::init")
    cell2, planes2 = sym_cell("c2")
    opaque = {}
    def init_with_data(interp, env, node, args):
        opaque["args"] = args
        return Struct("I", {})
    ctx2 = symex.Ctx(); ctx2.contracts["I::init_with_data"] = init_with_data
    r2, env2, ctx2, _ = ui.run({"cell": cell2, "clipping_plane_idx": k, "data": symex.UNIT}, ctx2, extra_files=XF)
    h2 = planes2.memo[k]
    same_opt = lambda a, b, eqf: And(Eq(a.some, b.some), Implies(a.some, eqf(a.val, b.val)))
    obs.append(Obligation(prefix + ".face_labels.left_is_cell_right_and_shift_from_plane", ctx2.assume + ctx2.ok,
                          And(Eq(r2.f["left"], cell2.f["idx"]), same_opt(r2.f["right"], h2.f["right_idx"], Eq),
                              same_opt(r2.f["shift"], h2.f["shift"], veq)), ui.label))
    return obs, [uf, ui]


@isolated('accumulators')
def accumulator_obligations(prefix):
    """collect/finalize of the built-in face and cell integrals as an inductive invariant over the feed of tetrahedra."""
    obs, units = [], []
    for file, ty in (("voronoi/voronoi_face.rs", "VoronoiFaceIntegral"), ("voronoi/integrals.rs", "AreaCentroidIntegral")):
        uc = Unit(file, ty + "::collect@FaceIntegral"); ufz = Unit(file, ty + "::finalize@FaceIntegral")
        units += [uc, ufz]
        area, cen, nrm = real("acc_area"), vec("acc_centroid"), vec("acc_normal")
        fields = {"area": area, "centroid": cen}
        if ty == "VoronoiFaceIntegral": fields["normal"] = nrm
        acc = Struct(ty, fields)
        v0, v1, v2, g = vec("v0"), vec("v1"), vec("v2"), vec("gen")
        ctx = symex.Ctx()
        _, env, ctx, _ = uc.run({"self": acc, "v0": v0, "v1": v1, "v2": v2, "gen": g}, ctx, extra_files=XF)
        acc2 = env.vars["self"]
        # ghost plane (m, d): every fed triangle lies in the face plane
        m, d = vec("pl_m"), real("pl_d")
        onpl = [Eq(dot(m, v), d) for v in (v0, v1, v2)]
        inv = lambda a: Eq(dot(m, a.f["centroid"]), Const(3, "Real") * d * a.f["area"])
        tag = "%s.%s" % (prefix, "face_acc" if ty == "VoronoiFaceIntegral" else "area_centroid_acc")
        P = ctx.assume + ctx.ok
        # modular: uses only collect's functional postcondition (next obligation), with the triangle's signed area abstract
        a_abs = real("a_tri")
        post_acc = Struct(ty, {"area": area + a_abs, "centroid": add(cen, scale(a_abs, add(add(v0, v1), v2)))})
        obs.append(Obligation(tag + ".collect_preserves_centroid_in_plane_invariant", onpl + [inv(acc)], inv(post_acc), uc.label,
                              note="invariant: m . centroid_acc = 3 d area_acc for any plane (m, d) containing all fed triangles; "
                                   "from collect's postcondition with the signed area abstract"))
        sa = Unit("geometry.rs", "signed_area_tri")
        c2 = symex.Ctx()
        a_tri, _, c2, _ = sa.run({"v0": v0, "v1": v1, "v2": v2, "t": g}, c2)
        obs.append(Obligation(tag + ".collect_adds_signed_area_and_weighted_vertex_sum", P + c2.assume,
                              And(Eq(acc2.f["area"], area + a_tri), veq(acc2.f["centroid"], add(cen, scale(a_tri, add(add(v0, v1), v2))))), uc.label))
        if ty == "VoronoiFaceIntegral":
            obs.append(Obligation(tag + ".collect_keeps_normal", P, veq(acc2.f["normal"], nrm), uc.label))
        ctx3 = symex.Ctx()
        fin, env3, ctx3, _ = ufz.run({"self": acc}, ctx3, extra_files=XF)
        obs.append(Obligation(tag + ".finalize_defined", ctx3.assume + ctx3.ok, And(*[Implies(o.pc, o.cond) for o in ctx3.obls]) if ctx3.obls else TRUE, ufz.label))
        obs.append(Obligation(tag + ".finalize_centroid_on_plane_if_area_positive", ctx3.assume + ctx3.ok + [inv(acc), Gt(area, R0)],
                              Eq(dot(m, fin.f["centroid"]), d), ufz.label, replay=replay_centroid_on_plane if ty == "VoronoiFaceIntegral" else None))
        obs.append(Obligation(tag + ".finalize_keeps_area", ctx3.assume + ctx3.ok, Eq(fin.f["area"], area), ufz.label))
    # cell integral
    uc = Unit("voronoi/integrals.rs", "VolumeCentroidIntegral::collect@CellIntegral")
    ufz = Unit("voronoi/integrals.rs", "VolumeCentroidIntegral::finalize@CellIntegral")
    units += [uc, ufz]
    vol, cen = real("acc_volume"), vec("acc_centroid")
    acc = Struct("VolumeCentroidIntegral", {"volume": vol, "centroid": cen})
    v0, v1, v2, g = vec("v0"), vec("v1"), vec("v2"), vec("gen")
    ctx = symex.Ctx()
    _, env, ctx, _ = uc.run({"self": acc, "v0": v0, "v1": v1, "v2": v2, "gen": g}, ctx, extra_files=XF)
    acc2 = env.vars["self"]
    sv = Unit("geometry.rs", "signed_volume_tet")
    c2 = symex.Ctx()
    tv, _, c2, _ = sv.run({"v0": v0, "v1": v1, "v2": v2, "v3": g}, c2)
    obs.append(Obligation(prefix + ".cell_acc.collect_adds_signed_volume_and_weighted_vertex_sum", ctx.assume + ctx.ok + c2.assume,
                          And(Eq(acc2.f["volume"], vol + tv), veq(acc2.f["centroid"], add(cen, scale(tv, add(add(add(v0, v1), v2), g))))), uc.label))
    ctx3 = symex.Ctx()
    fin, env3, ctx3, _ = ufz.run({"self": acc}, ctx3, extra_files=XF)
    obs.append(Obligation(prefix + ".cell_acc.finalize_is_weighted_mean_of_tet_centroids", ctx3.assume + ctx3.ok + [Gt(vol, R0)],
                          And(veq(scale(Const(4, "Real") * vol, fin.f["centroid"]), cen), Eq(fin.f["volume"], vol)), ufz.label,
                          note="centroid = (sum vol_k (v0+v1+v2+g)) / (4 sum vol_k) = sum vol_k c_k / sum vol_k with c_k the tetrahedron centroid"))
    return obs, units


def replay_small_periodic(ob):
    """Replay for the neighbour-loop obligations: periodic tessellations of 1 and 2 generators (a generator neighbours its own images)
    in 1D/2D/3D through the public API; C06's sentences are evaluated on the real output: the cell measures sum to the box measure
    and there are no boundary faces along periodic axes."""
    from ..runner import replay_requests
    reqs = []
    for d in (1, 2, 3):
        for gens in ([[0.3, 0.4, 0.6]], [[0.2, 0.3, 0.4], [0.7, 0.6, 0.8]]):
            g = [[p[0], p[1] if d >= 2 else 0.0, p[2] if d == 3 else 0.0] for p in gens]
            reqs.append({"op": "build", "gens": g, "anchor": [0, 0, 0], "width": [1.0, 1.5 if d >= 2 else 1.0, 2.0 if d == 3 else 1.0], "dim": d, "periodic": True})
    bad = []
    for rq, a in zip(reqs, replay_requests(reqs, timeout=300)):
        if "cells" not in a:
            bad.append({"request": rq, "real": a, "what": "construction panics"}); continue
        vol = sum(c["volume"] for c in a["cells"]); want = rq["width"][0] * rq["width"][1] * rq["width"][2]
        nb = [f for f in a["faces"] if f["right"] is None]
        if abs(vol - want) > 1e-9 * want: bad.append({"request": rq, "sum_of_cell_measures": vol, "box_measure": want})
        elif nb: bad.append({"request": rq, "boundary_faces_in_a_periodic_tessellation": len(nb)})
    return {"reproduced": bool(bad), "runs": bad[:2], "searched": len(reqs),
            "what": "periodic tessellations with 1 and 2 generators: measures must sum to the box measure, no boundary faces"}


def replay_normal_on_wall(ob):
    """Generators exactly on walls of a reflective box (1D/2D/3D), through the public API: every boundary face's normal must point out of
    the box (normal . (box centre - face centroid) < 0) and every interior face's normal from left to right."""
    from ..runner import replay_requests
    reqs = []
    for d, gens in ((3, [[0.0, 0.5, 0.5], [1.0, 0.25, 0.75], [0.5, 0.0, 0.3], [0.4, 0.6, 1.0]]), (2, [[0.0, 0.5, 0], [1.0, 0.25, 0], [0.5, 0.0, 0]]), (1, [[0.0, 0, 0], [0.6, 0, 0]])):
        reqs.append({"op": "build", "gens": gens, "anchor": [0, 0, 0], "width": [1, 1, 1], "dim": d})
    bad = []
    for rq, a in zip(reqs, replay_requests(reqs, timeout=300)):
        if "faces" not in a: continue
        for f in a["faces"]:
            g = rq["gens"][f["left"]]
            if f["right"] is None:
                centre = [0.5, 0.5 if rq["dim"] >= 2 else 0.0, 0.5 if rq["dim"] == 3 else 0.0]
                s = sum(f["normal"][i] * (f["centroid"][i] - centre[i]) for i in range(3))
            else:
                r = rq["gens"][f["right"]]
                s = sum(f["normal"][i] * (r[i] - g[i]) for i in range(3))
            if not s > 0: bad.append({"request": rq, "face": f, "normal_dot_outward_direction": s})
    return {"reproduced": bool(bad), "runs": bad[:2], "what": "VoronoiFace::normal() of a face of a cell whose generator lies exactly on a wall points into the cell"}


def replay_centroid_on_plane(ob):
    """Small tessellations at box sizes 1, 1e-9 and 1e+6 through the public API: every face centroid must lie on its bisector plane / wall
    (distance relative to the box size below 1e-6)."""
    from ..runner import replay_requests
    reqs, bad = [], []
    base = [[0.21, 0.33, 0.41], [0.72, 0.28, 0.55], [0.45, 0.81, 0.37], [0.58, 0.52, 0.86]]
    for sc in (1.0, 1e-9, 1e6):
        for d in (3, 2):
            gens = [[p[0] * sc, p[1] * sc, p[2] * sc if d == 3 else 0.0] for p in base]
            reqs.append({"op": "build", "gens": gens, "anchor": [0, 0, 0], "width": [sc, sc, sc], "dim": d, "_scale": sc})
    for rq, a in zip(reqs, replay_requests(reqs, timeout=300)):
        sc = rq["_scale"]
        for f in a.get("faces", []):
            g = rq["gens"][f["left"]]
            if f["right"] is not None:
                r = rq["gens"][f["right"]]; mid = [(g[i] + r[i]) / 2 for i in range(3)]
                dist = sum((f["centroid"][i] - mid[i]) * f["normal"][i] for i in range(3))
            else:
                c = f["centroid"]; n = f["normal"]; ax = max(range(3), key=lambda i: abs(n[i]))
                wall = sc if n[ax] > 0 else 0.0
                dist = c[ax] - wall
            if not abs(dist) <= 1e-6 * sc: bad.append({"request": {k: v for k, v in rq.items() if k != "_scale"}, "face": f, "distance_of_centroid_from_face_plane": dist, "box_size": sc})
    return {"reproduced": bool(bad), "runs": bad[:2], "what": "face centroid does not lie on the face's plane"}
