"""E2 contracts for the bisector construction, face/cell integral accumulators and face labels
(C04, C16 termination slice, C03/C06 label pass-through)."""
from .. import terms as tm, symex, extract
from ..terms import Var, Const, And, Or, Not, Eq, Lt, Le, Ge, Gt, Ite, Implies, TRUE, FALSE
from ..symex import Vec, Struct, Opt, SymArr, Arr
from ..e2 import *
from . import grid

CC = "voronoi/convex_cell.rs"
XF = ("voronoi/half_space.rs", "geometry.rs", "voronoi/generator.rs", "voronoi/integrals.rs", "voronoi/voronoi_face.rs")


def build_loop_slice():
    """The body of `for (idx, shift) in nearest_neighbours` in ConvexCell::build, verbatim from the AST."""
    u = Unit(CC, "ConvexCell::build")
    loops = extract.find_nodes(u.fn["body"], lambda n: n.get("k") == "for")
    if len(loops) != 1: raise extract.Undecided("lost anchor: the neighbour loop of ConvexCell::build")
    lp = loops[0]
    pat = lp["pat"]
    if pat["k"] != "ptuple" or [e.get("name") for e in pat["elems"]] != ["idx", "shift"]:
        raise extract.Undecided("lost anchor: loop pattern (idx, shift)")
    return u, lp["body"]["stmts"], extract.sha(extract.text_of(u.tree, lp["body"]))


def bisector_obligations(prefix):
    u, stmts, sha = build_loop_slice()
    gens = grid.sym_generators("gb_")
    idx = Var("ngb_idx", "Int")
    sh = vec("shift")
    shift = option("shift", sh)
    loc = vec("loc")
    sr = real("safety_radius")
    cell = Struct("ConvexCell", {"loc": loc, "safety_radius": sr, "idx": Var("cell_idx", "Int")})
    captured = {}
    def clip_contract(interp, env, node, args):
        captured["args"] = args; captured["pc"] = env.pc
        return symex.UNIT
    ctx = symex.Ctx()
    ctx.resolver = u.resolver(XF)
    ctx.contracts["ConvexCell::clip_by_plane"] = clip_contract
    consts = u.auto_consts(XF)
    v, env, ctx, it = symex.run_stmts(stmts, {"generators": gens, "idx": idx, "shift": shift, "cell": cell,
                                              "simulation_boundary": Struct("SimulationBoundary", {})}, ctx, consts, "ConvexCell")
    if "args" not in captured: raise extract.Undecided("lost anchor: cell.clip_by_plane(..) call in the neighbour loop")
    hs = captured["args"][1]
    if not isinstance(hs, Struct) or hs.name != "HalfSpace": raise extract.Undecided("clip_by_plane's first argument is not a HalfSpace::new(..)")
    g = gens.memo[idx].f["loc"]
    ngb = Vec([Ite(shift.some, g.c[i] + sh.c[i], g.c[i]) for i in range(3)])
    distinct = [vnonzero(sub(loc, ngb))]
    P = distinct + ctx.assume + ctx.ok
    n, p = hs.f["plane"].f["n"], hs.f["plane"].f["p"]
    called = captured["pc"]
    obs = [Obligation(prefix + ".bisector.requires_satisfiable", P + [called], TRUE, u.label, expect_sat=True)]
    side = [Implies(o.pc, o.cond) for o in ctx.obls]
    obs.append(Obligation(prefix + ".bisector.defined", P, And(*side), u.label))
    E = lambda name, goal, extra=(): obs.append(Obligation(prefix + ".bisector." + name, P + [called] + list(extra), goal, u.label))
    E("neighbour_position_is_generator_plus_shift", veq(sub(scale(Const(2, "Real"), p), loc), ngb))
    E("normal_is_unit", Eq(norm2(n), Const(1, "Real")))
    E("normal_points_towards_own_generator", Gt(dot(n, sub(loc, p)), R0))
    E("normal_parallel_to_generator_difference", veq(cross(n, sub(loc, ngb)), Vec([R0] * 3)))
    E("plane_point_equidistant", Eq(norm2(sub(p, loc)), norm2(sub(p, ngb))))
    E("labels_right_is_neighbour_index_shift_passed_through",
      And(hs.f["right_idx"].some, Eq(hs.f["right_idx"].val, idx), Eq(hs.f["shift"].some, shift.some),
          Implies(shift.some, veq(hs.f["shift"].val, sh))))
    # termination slice (C16): the loop returns exactly when safety_radius < dist, otherwise it clips with that plane
    dist2 = norm2(sub(loc, ngb))
    ret = Or(*[c for c, _ in env.returns]) if env.returns else FALSE
    obs.append(Obligation(prefix + ".bisector.returns_iff_safety_radius_lt_distance", P + [Ge(sr, R0)],
                          And(Eq(ret, Lt(sr * sr, dist2)), Eq(called, Not(Lt(sr * sr, dist2)))), u.label))
    meta = {"fn": u.label + " / neighbour-loop body", "slice_sha": sha}
    return obs, meta


def _halfspace(tag):
    n, p = vec(tag + "_n"), vec(tag + "_p")
    return Struct("HalfSpace", {"plane": Struct("Plane", {"n": n, "p": p}), "d": real(tag + "_d"), "errb": real(tag + "_errb"),
                                "right_idx": option(tag + "_right", Var(tag + "_right", "Int")),
                                "shift": option(tag + "_shift", vec(tag + "_shiftv"))})


def sym_cell(tag="cell"):
    def factory(i):
        k = "%s_hs%d" % (tag, len(factory.made)); factory.made.append(i)
        return _halfspace(k)
    factory.made = []
    planes = SymArr(factory)
    return Struct("ConvexCell", {"idx": Var(tag + "_idx", "Int"), "loc": vec(tag + "_loc"), "clipping_planes": planes,
                                 "safety_radius": real(tag + "_sr")}), planes


def face_init_obligations(prefix):
    """VoronoiFaceIntegral::init (normal) and FaceIntegrator::init (labels)."""
    obs = []
    uf = Unit("voronoi/voronoi_face.rs", "VoronoiFaceIntegral::init@FaceIntegral")
    cell, planes = sym_cell()
    k = Var("plane_idx", "Int")
    r, env, ctx, it = uf.run({"cell": cell, "clipping_plane_idx": k}, extra_files=XF)
    hs = planes.memo[k]
    n, p = hs.f["plane"].f["n"], hs.f["plane"].f["p"]
    loc = cell.f["loc"]
    # data-structure invariant established by cuboid (walls) and the bisector slice: unit normals pointing into the cell
    inv = [Eq(norm2(n), Const(1, "Real")), Gt(dot(n, sub(loc, p)), R0)]
    P = inv + ctx.assume + ctx.ok
    obs.append(Obligation(prefix + ".face_init.requires_satisfiable", P, TRUE, uf.label, expect_sat=True))
    nrm = r.f["normal"]
    obs.append(Obligation(prefix + ".face_init.normal_points_away_from_left_generator", P, Lt(dot(nrm, sub(loc, p)), R0), uf.label,
                          note="from the property statement and the doc comment of VoronoiFace::normal, not from the code"))
    obs.append(Obligation(prefix + ".face_init.normal_is_unit", P, Eq(norm2(nrm), Const(1, "Real")), uf.label))
    obs.append(Obligation(prefix + ".face_init.normal_orthogonal_to_face_plane", P, veq(cross(nrm, n), Vec([R0] * 3)), uf.label))
    obs.append(Obligation(prefix + ".face_init.accumulators_start_at_zero", P, And(Eq(r.f["area"], R0), veq(r.f["centroid"], Vec([R0] * 3))), uf.label))
    # labels
    ui = Unit("voronoi/integrals.rs", "FaceIntegrator::init")
    cell2, planes2 = sym_cell("c2")
    opaque = {}
    def init_with_data(interp, env, node, args):
        opaque["args"] = args
        return Struct("I", {})
    ctx2 = symex.Ctx(); ctx2.contracts["I::init_with_data"] = init_with_data
    r2, env2, ctx2, _ = ui.run({"cell": cell2, "clipping_plane_idx": k, "data": symex.UNIT}, ctx2, extra_files=XF)
    h2 = planes2.memo[k]
    same_opt = lambda a, b, eqf: And(Eq(a.some, b.some), Implies(a.some, eqf(a.val, b.val)))
    obs.append(Obligation(prefix + ".face_labels.left_is_cell_right_and_shift_from_plane", ctx2.assume + ctx2.ok,
                          And(Eq(r2.f["left"], cell2.f["idx"]), same_opt(r2.f["right"], h2.f["right_idx"], Eq),
                              same_opt(r2.f["shift"], h2.f["shift"], veq)), ui.label))
    return obs, [uf, ui]


def accumulator_obligations(prefix):
    """collect/finalize of the built-in face and cell integrals as an inductive invariant over the feed of tetrahedra."""
    obs, units = [], []
    for file, ty in (("voronoi/voronoi_face.rs", "VoronoiFaceIntegral"), ("voronoi/integrals.rs", "AreaCentroidIntegral")):
        uc = Unit(file, ty + "::collect@FaceIntegral"); ufz = Unit(file, ty + "::finalize@FaceIntegral")
        units += [uc, ufz]
        area, cen, nrm = real("acc_area"), vec("acc_centroid"), vec("acc_normal")
        fields = {"area": area, "centroid": cen}
        if ty == "VoronoiFaceIntegral": fields["normal"] = nrm
        acc = Struct(ty, fields)
        v0, v1, v2, g = vec("v0"), vec("v1"), vec("v2"), vec("gen")
        ctx = symex.Ctx()
        _, env, ctx, _ = uc.run({"self": acc, "v0": v0, "v1": v1, "v2": v2, "gen": g}, ctx, extra_files=XF)
        acc2 = env.vars["self"]
        # ghost plane (m, d): every fed triangle lies in the face plane
        m, d = vec("pl_m"), real("pl_d")
        onpl = [Eq(dot(m, v), d) for v in (v0, v1, v2)]
        inv = lambda a: Eq(dot(m, a.f["centroid"]), Const(3, "Real") * d * a.f["area"])
        tag = "%s.%s" % (prefix, "face_acc" if ty == "VoronoiFaceIntegral" else "area_centroid_acc")
        P = ctx.assume + ctx.ok
        # modular: uses only collect's functional postcondition (next obligation), with the triangle's signed area abstract
        a_abs = real("a_tri")
        post_acc = Struct(ty, {"area": area + a_abs, "centroid": add(cen, scale(a_abs, add(add(v0, v1), v2)))})
        obs.append(Obligation(tag + ".collect_preserves_centroid_in_plane_invariant", onpl + [inv(acc)], inv(post_acc), uc.label,
                              note="invariant: m . centroid_acc = 3 d area_acc for any plane (m, d) containing all fed triangles; "
                                   "from collect's postcondition with the signed area abstract"))
        sa = Unit("geometry.rs", "signed_area_tri")
        c2 = symex.Ctx()
        a_tri, _, c2, _ = sa.run({"v0": v0, "v1": v1, "v2": v2, "t": g}, c2)
        obs.append(Obligation(tag + ".collect_adds_signed_area_and_weighted_vertex_sum", P + c2.assume,
                              And(Eq(acc2.f["area"], area + a_tri), veq(acc2.f["centroid"], add(cen, scale(a_tri, add(add(v0, v1), v2))))), uc.label))
        if ty == "VoronoiFaceIntegral":
            obs.append(Obligation(tag + ".collect_keeps_normal", P, veq(acc2.f["normal"], nrm), uc.label))
        ctx3 = symex.Ctx()
        fin, env3, ctx3, _ = ufz.run({"self": acc}, ctx3, extra_files=XF)
        obs.append(Obligation(tag + ".finalize_defined", ctx3.assume + ctx3.ok, And(*[Implies(o.pc, o.cond) for o in ctx3.obls]) if ctx3.obls else TRUE, ufz.label))
        obs.append(Obligation(tag + ".finalize_centroid_on_plane_if_area_positive", ctx3.assume + ctx3.ok + [inv(acc), Gt(area, R0)],
                              Eq(dot(m, fin.f["centroid"]), d), ufz.label))
        obs.append(Obligation(tag + ".finalize_keeps_area", ctx3.assume + ctx3.ok, Eq(fin.f["area"], area), ufz.label))
    # cell integral
    uc = Unit("voronoi/integrals.rs", "VolumeCentroidIntegral::collect@CellIntegral")
    ufz = Unit("voronoi/integrals.rs", "VolumeCentroidIntegral::finalize@CellIntegral")
    units += [uc, ufz]
    vol, cen = real("acc_volume"), vec("acc_centroid")
    acc = Struct("VolumeCentroidIntegral", {"volume": vol, "centroid": cen})
    v0, v1, v2, g = vec("v0"), vec("v1"), vec("v2"), vec("gen")
    ctx = symex.Ctx()
    _, env, ctx, _ = uc.run({"self": acc, "v0": v0, "v1": v1, "v2": v2, "gen": g}, ctx, extra_files=XF)
    acc2 = env.vars["self"]
    sv = Unit("geometry.rs", "signed_volume_tet")
    c2 = symex.Ctx()
    tv, _, c2, _ = sv.run({"v0": v0, "v1": v1, "v2": v2, "v3": g}, c2)
    obs.append(Obligation(prefix + ".cell_acc.collect_adds_signed_volume_and_weighted_vertex_sum", ctx.assume + ctx.ok + c2.assume,
                          And(Eq(acc2.f["volume"], vol + tv), veq(acc2.f["centroid"], add(cen, scale(tv, add(add(add(v0, v1), v2), g))))), uc.label))
    ctx3 = symex.Ctx()
    fin, env3, ctx3, _ = ufz.run({"self": acc}, ctx3, extra_files=XF)
    obs.append(Obligation(prefix + ".cell_acc.finalize_is_weighted_mean_of_tet_centroids", ctx3.assume + ctx3.ok + [Gt(vol, R0)],
                          And(veq(scale(Const(4, "Real") * vol, fin.f["centroid"]), cen), Eq(fin.f["volume"], vol)), ufz.label,
                          note="centroid = (sum vol_k (v0+v1+v2+g)) / (4 sum vol_k) = sum vol_k c_k / sum vol_k with c_k the tetrahedron centroid"))
    return obs, units
