"""C18 — clipping a cell is independent of vertex storage order (E1: Verus on verbatim slices)."""
import itertools, os, random
from .. import verus, runner, extract
from ..runner import Result

SPEC = os.path.join(extract.VERIF, "contracts", "c18.vspec")
LAYOUT = [
    ("struct", "simple_cycle.rs", "SimpleCycle"),
    ("struct", "simple_cycle.rs", "SimpleCycle2Iterator"),
    ("impl", "impl SimpleCycle", [("simple_cycle.rs", "SimpleCycle::new"), ("simple_cycle.rs", "SimpleCycle::iter"),
                                  ("simple_cycle.rs", "SimpleCycle::grow"), ("simple_cycle.rs", "SimpleCycle::init"),
                                  ("simple_cycle.rs", "SimpleCycle::contains"), ("simple_cycle.rs", "SimpleCycle::try_extend")]),
    ("impl", "impl<'a> SimpleCycle2Iterator<'a>", [("simple_cycle.rs", "SimpleCycle2Iterator::next@Iterator")]),
    ("struct", "voronoi/convex_cell.rs", "Vertex"), ("text", "text after_vertex"),
    ("impl", "impl VxConvexCell", [("voronoi/convex_cell.rs", "ConvexCell::compute_boundary")]),
    # the block `if num_r > 0 { .. }` of clip_by_plane as a W16 slice: new plane, boundary, one new vertex per boundary edge
    ("struct_keep", "voronoi/convex_cell.rs", "ConvexCell", "VxClipCell", ["loc", "clipping_planes", "vertices", "boundary", "safety_radius"]),
    ("text", "text tail_prelude"),
    ("slice_fn", "voronoi/convex_cell.rs", "ConvexCell::clip_by_plane", "clip_tail", "let p_idx"),
    ("text", "text tail_close"),
]
# verus function -> obligation label
FNS = {
    "iter": "SimpleCycle_iter.contract",
    "grow": "SimpleCycle_grow.contract",
    "init": "SimpleCycle_init.resets_old_cycle_and_installs_triangle_wf",
    "contains": "SimpleCycle_contains.contract",
    "try_extend": "SimpleCycle_try_extend.equals_functional_spec_err_leaves_state_unchanged",
    "next": "SimpleCycle2Iterator_next.contract",
    "compute_boundary": "compute_boundary.permutes_vertices_keeps_single_cycle_chain_is_sum_of_triangle_boundaries",
    "clip_tail": "clip_by_plane_tail.new_plane_appended_kept_vertices_untouched_one_new_vertex_per_boundary_edge_cell_invariant_kept",
    "lemma_push_preserves_wf": "lemma.grow_slot_preserves_single_cycle",
    "vx_take": "std_take.constructor",
    "lemma_orbit_len_le_capacity": "lemma.cycle_has_at_most_as_many_nodes_as_slots",
    "lemma_rotation_invariant": "lemma.try_extend_invariant_under_rotation_of_the_triple",
    "lemma_chain_additive": "lemma.extension_adds_triangle_boundary_to_chain",
    "lemma_bd_rotation": "lemma.boundary_operator_rotation_invariant",
    "lemma_len_and_nodes": "lemma.len_changes_by_one_with_exactly_one_node",
    "lemma_orbit_nodes_on": "lemma.orbit_nodes_are_on_cycle",
    "lemma_wf_grow": "lemma.grow_preserves_single_cycle",
    "lemma_wf_shrink": "lemma.shrink_preserves_single_cycle",
    "lemma_wf_step": "lemma.step_preserves_single_cycle",
    "lemma_triangle_chain": "lemma.triangle_chain",
    "lemma_sum_bd_take_next": "lemma.sum_bd_take_next",
    "lemma_sum_bd_remove": "lemma.sum_bd_remove",
    "lemma_sum_bd_reordered": "lemma.sum_of_boundaries_independent_of_order_and_rotation",
    "lemma_no_two_cycle": "lemma.no_two_cycle_in_cycle_of_length_ge_3",
    "lemma_cycle_determined_by_chain": "lemma.cycle_determined_by_chain",
    "lemma_new_is_wf": "lemma.new_is_wf",
    "lemma_same_ptrs_same_len": "lemma.same_ptrs_same_len",
    "lemma_orbit_len_le": "lemma.orbit_len_le",
    "lemma_pigeonhole": "lemma.pigeonhole",
    "theorem_clipping_independent_of_storage_order": "theorem.clipping_independent_of_storage_order_and_triple_rotation",
}
UNIT = "simple_cycle.rs + voronoi::convex_cell::ConvexCell::compute_boundary (Verus, verbatim slices)"


# ---------------------------------------------------------------- replay: bounded search against the same functional spec
def on(p, x): return p[x] != x

def py_step(p, start, ln, a, b, c):
    for (x, y, z) in ((a, b, c), (b, c, a), (c, a, b)):
        if (not on(p, x)) and on(p, y) and on(p, z) and p[z] == y:
            q = list(p); q[z] = x; q[x] = y
            return q, start, ln + 1
        if on(p, x) and on(p, y) and on(p, z) and p[z] == y and p[y] == x:
            q = list(p); q[z] = x; q[y] = y
            return q, (x if start == y else start), ln - 1
    return None


def grow_probe(total=200):
    """Long operation sequences of the same functional spec: a triangle on capacity 3, then `grow` up to `total` slots with an extension
    through each new label; after every step the successor map on the labels in use must equal the specification's."""
    from ..runner import replay_requests
    reqs, exp = [], []
    ops = [["init", 0, 1, 2]]
    p, start, ln = [1, 2, 0], 0, 3
    for k in range(3, total):
        ops = ops + [["grow"]]
        p = p + [k]
        if k % 7 == 3:
            # attach the new label k between start's predecessor z and start y: triangle (k, y, z) with edge z -> y on the cycle
            y = start; z = [x for x in range(len(p)) if p[x] == y and p[x] != x][0]
            st = py_step(p, start, ln, k, y, z)
            ops = ops + [["ext", k, y, z]]
            if st is not None: p, start, ln = st
        reqs.append({"op": "cycle", "capacity": 3, "ops": list(ops)}); exp.append((list(p), start, ln))
    for rq, e, a in zip(reqs, exp, replay_requests(reqs, timeout=300)):
        if "ptrs" not in a or a["ptrs"][:len(e[0])] != e[0] or a["len"] != e[2]:
            return len(reqs), {"request": {"op": "cycle", "capacity": 3, "ops": "init(0,1,2) then %d grow / extend steps" % (len(rq["ops"]) - 1), "last_ops": rq["ops"][-3:]},
                               "real": {k: (v[:len(e[0])] if k == "ptrs" else v) for k, v in a.items() if k != "log"}, "spec": e}
    return len(reqs), None


def closed_polytope_probe(seed=0):
    """'the result is again a closed polytope with three planes per vertex', on real cells from ConvexCell::build (public API), including
    cells in which ONE clip removes a lid of 12..48 vertices (a ring of neighbours plus one neighbour above it: long boundary cycles):
    every vertex has three distinct planes and every edge (pair of planes meeting in a vertex) is shared by exactly two vertices."""
    import math
    from ..runner import replay_requests
    rng = random.Random(seed)
    reqs = []
    for ring in (12, 24, 33, 40, 48):
        c = [0.5, 0.5, 0.5]
        gens = [c] + [[0.5 + 0.3 * math.cos(2 * math.pi * (k + 0.37) / ring), 0.5 + 0.3 * math.sin(2 * math.pi * (k + 0.37) / ring), 0.5] for k in range(ring)]
        gens.append([0.5, 0.5, 0.5 + 0.33]); gens.append([0.5, 0.5, 0.5 - 0.36])
        reqs.append({"op": "cell_duals", "gens": gens, "anchor": [0, 0, 0], "width": [1, 1, 1], "periodic": False, "_what": "ring of %d + lid" % ring})
    for k in range(6):
        gens = [[rng.random(), rng.random(), rng.random()] for _ in range(30)]
        reqs.append({"op": "cell_duals", "gens": gens, "anchor": [0, 0, 0], "width": [1, 1, 1], "periodic": bool(k % 2), "_what": "30 random generators"})
    cells = 0
    for rq, a in zip(reqs, replay_requests(reqs, timeout=600)):
        rq = {k: v for k, v in rq.items() if k != "_what"}
        if "cells" not in a: return cells, {"request": rq, "real": a, "what": "construction panics"}
        for c in a["cells"]:
            cells += 1
            edges = {}
            for d in c["duals"]:
                if len(set(d)) != 3 or max(d) >= c["n_planes"]: return cells, {"request": rq, "cell": c["idx"], "vertex_dual": d, "what": "vertex without three distinct planes"}
                for e in ((d[0], d[1]), (d[1], d[2]), (d[2], d[0])): edges[frozenset(e)] = edges.get(frozenset(e), 0) + 1
            odd = [sorted(e) for e, k in edges.items() if k != 2]
            if odd: return cells, {"request": rq, "cell": c["idx"], "n_vertices": len(c["duals"]), "edges_not_shared_by_exactly_two_vertices": odd[:6],
                                   "what": "cell is not a closed polytope with three planes per vertex"}
    return cells, None


def bounded_search(n=6, max_states=400, seed=0):
    """Reachable states of the real SimpleCycle on n labels (BFS over op sequences), every triple tried from each:
    real try_extend/init vs the functional specification. Returns (cases, first mismatch or None)."""
    from ..runner import replay_requests
    rng = random.Random(seed)
    triples = [t for t in itertools.permutations(range(n), 3)]
    seen, frontier, cases = {}, [], 0
    start_ops = [["init", 0, 1, 2]]
    frontier.append(start_ops)
    spec0 = ([1, 2, 0] + list(range(3, n)), 0, 3)
    seen[(tuple(spec0[0]), spec0[1], spec0[2])] = start_ops
    states = [(start_ops, spec0)]
    i = 0
    while i < len(states) and len(states) < max_states:
        ops, sp = states[i]; i += 1
        reqs, exp = [], []
        for t in triples:
            reqs.append({"op": "cycle", "capacity": n, "ops": ops + [["ext"] + list(t)]})
            exp.append(py_step(sp[0], sp[1], sp[2], *t))
        # also re-init from this state (exercises the reset loop)
        t0 = rng.choice(triples)
        reqs.append({"op": "cycle", "capacity": n, "ops": ops + [["init"] + list(t0)]})
        q = list(range(n)); q[t0[0]] = t0[1]; q[t0[1]] = t0[2]; q[t0[2]] = t0[0]
        exp.append((q, t0[0], 3))
        ans = replay_requests(reqs)
        for rq, e, a in zip(reqs, exp, ans):
            cases += 1
            if "ptrs" not in a: return cases, {"request": rq, "real": a, "spec": e}
            a = dict(a, ptrs=a["ptrs"][:n])      # the abstract state: successor map on the n labels in use (spare capacity is representation)
            last = rq["ops"][-1]
            if last[0] == "ext":
                ok_real = a["log"][-1]
                if e is None:
                    good = (ok_real is False) and a["ptrs"] == sp[0] and a["start"] == sp[1] and a["len"] == sp[2]
                else:
                    good = (ok_real is True) and a["ptrs"] == e[0] and a["start"] == e[1] and a["len"] == e[2]
            else:
                good = a["ptrs"] == e[0] and a["start"] == e[1] and a["len"] == e[2]
            if not good: return cases, {"request": rq, "real": a, "spec": e}
            if e is not None and last[0] == "ext":
                key = (tuple(e[0]), e[1], e[2])
                if key not in seen and e[2] >= 2:
                    seen[key] = rq["ops"]; states.append((rq["ops"], e))
    return cases, None


def run(tier, seed):
    tail_lost = None
    try:
        text, slices, spec = verus.assemble(SPEC, LAYOUT)
    except extract.Undecided as e:
        # the annotated shape of one unit no longer fits the source: that unit is undecided (never an alarm); the other units are still
        # verified, and the bounded stand-ins below still run against the real code
        n_tail = 4
        try:
            text, slices, spec = verus.assemble(SPEC, LAYOUT[:-n_tail])
        except extract.Undecided:
            raise e
        tail_lost = str(e)
    r = verus.run("c18", text, timeout=300 if tier == "quick" else 900,
                  extra=(["--rlimit", "50"] if tier == "thorough" else []))
    fns = dict(FNS)
    fns["witness_contracts_are_satisfiable"] = "witness.contracts_are_satisfiable"
    TAIL_FNS = ("clip_tail", "lemma_push_preserves_wf", "vx_take", "lemma_orbit_len_le_capacity")
    if tail_lost:
        for k_ in TAIL_FNS: fns.pop(k_, None)
    results = verus.results_per_function("C18", r, text, fns, UNIT)
    if tail_lost:
        for k_ in TAIL_FNS:
            if k_ in FNS: results.append(Result("C18." + FNS[k_], "E1", "undecided", 0.0, "verus", "unit not assembled: " + tail_lost, UNIT))
    for x in results:   # vacuity guard
        if x.name.endswith("witness.contracts_are_satisfiable"):
            x.backend = "guard"
            if x.status == "discharged": x.status = "vacuity-ok"
    # bounded replay search: used as the counterexample finder for refuted E1 obligations, and reported as a bounded stand-in
    cases, bad = bounded_search(6, 60 if tier == "quick" else 2000, seed)
    if bad is None:
        c2, bad = grow_probe(200 if tier == "quick" else 600)
        cases += c2
    if any(x.status == "refuted" for x in results):
        for x in results:
            if x.status == "refuted":
                x.counterexample = bad
                x.replay = {"reproduced": bad is not None, "search": "all triples from %d reachable states on 6 labels" % cases, "mismatch": bad}
    # "whatever the storage order of the cell's vertices": whether a vertex is removed is decided from that vertex alone (filter, then the exact
    # predicate on ITS five grid points) - the E2 contract on the body of the vertex loop of clip_by_plane, shared with C05
    from . import clipwire
    from .. import smt as _smt
    o_cw, f_cw = clipwire.obligations("C18")
    _smt.discharge_all(o_cw, tier)
    results += [runner.from_smt(o) for o in o_cw]
    slices = slices + f_cw
    pc, pbad = closed_polytope_probe(seed)
    for x in results:
        if "clip_by_plane_tail" in x.name and x.status == "refuted":
            x.counterexample = pbad
            x.replay = {"reproduced": pbad is not None, "search": "%d real cells incl. boundary cycles of 12..48 edges" % pc, "mismatch": pbad}
    results.append(Result("C18.bounded.real_cells_are_closed_polytopes_with_three_planes_per_vertex", "R", "discharged" if pbad is None else "refuted", 0.0, "replay",
                          "" if pbad is None else repr(pbad), "ConvexCell::build / clip_by_plane through VoronoiIntegrator::build (public API, real crate)",
                          bounded="%d cells: rings of 12, 24, 33, 40, 48 neighbours with a lid removed in one clip, and 6 x 30 random generators" % pc,
                          counterexample=pbad, replay={"reproduced": pbad is not None, "mismatch": pbad}))
    results.append(Result("C18.bounded.real_try_extend_and_init_match_functional_spec", "R", "discharged" if bad is None else "refuted", 0.0, "replay",
                          "" if bad is None else repr(bad), UNIT, bounded="6 labels, BFS over reachable states, plus grow/extend sequences up to 200 labels: %d (state, operation) cases" % cases,
                          counterexample=bad, replay={"reproduced": bad is not None, "mismatch": bad}))
    meta = {
        "level": "proof",
        "functions": slices,
        "assumptions": verus.scan_assumptions(text) + [
            "SimpleCycle::new: external_body (iterator collect) with an assumed postcondition [A]",
            "vx_panic / vx_unwrap: diverging stubs, panics are allowed (never-stuck is NOT decided: that the greedy search always finds an attachable triangle is "
            "extendable shellability of the removed disk, a topological fact about the dual)",
            "which vertices are removed (the float filter + exact predicate loop of clip_by_plane) and the re-creation of vertices from the cycle are outside E1; 'same volume' is float",
            "usize arithmetic is checked for overflow by Verus; DVec3/f64 payloads are opaque"],
        "trusted_base": ["Verus 0.2026.09.13 + Z3", "vx (syn 2 dump)", "vlib/verus.py splice rules W1-W6", "vstd specs of Vec / slices / Option; assume_specification of <[T]>::swap"],
        "extra_cov": {"verus_functions_verified": (r["json"] or {}).get("verification-results", {}).get("verified"),
                      "assembled_file": r["path"], "traces_validated_against_impl": cases},
        "explanation": "try_extend equals a functional specification (first applicable rotation; Err leaves the state untouched); init resets the old cycle (loop invariant over the "
                       "orbit) and installs the triangle; every step preserves 'single cycle through start with len nodes'; compute_boundary only permutes the removed "
                       "vertices and ends with chain(edges) = sum of the dual triangles' boundaries; theorem: two outcomes for re-ordered / rotated inputs are the same cycle.",
    }
    return results, meta
