"""C11 — all big-integer back ends give identical predicate signs (proof modulo A-BIG)."""
from . import insphere
from .. import smt, runner, extract

BACKENDS = ["ibig", "dashu", "malachite", "num_bigint", "rug"]

A_BIG = ("A-BIG: ibig/dashu/malachite/num_bigint/rug implement Z exactly for from(i64), default()=0, +=, -=, &x*&y; "
         "signum().to_f64() (ibig, rug), signum().to_f64().value() (dashu), sign()->Ordering (malachite), "
         "sign()->Sign (num_bigint) behave as documented")


def run(tier, seed):
    obs, metas = [], {}
    for be in BACKENDS:
        o, m = insphere.obligations("C11.%s" % be, feature=be, with_meaning=False)
        obs += o; metas[be] = m
    smt.discharge_all(obs, tier)
    results = [runner.from_smt(o, insphere.replay_model) for o in obs]
    # frame check (syntactic, reported): `Integer` is used by no other function of the crate
    tree = extract.vx_dump(extract.src_path("geometry.rs"))
    users = [p for p, f in extract.all_fns(tree).items() if "Integer" in extract.text_of(tree, f)]
    n, bad = insphere.validate_translation(metas["ibig"], seed, 200 if tier == "quick" else 2000)
    if bad:
        raise extract.Undecided("translation mismatch (symbolic term vs compiled function): %r" % bad[:2])
    meta = {
        "level": "proof",
        "functions": [{"fn": metas[be]["unit"], "slice_sha": metas[be]["slice_sha"]} for be in BACKENDS],
        "assumptions": [A_BIG, "rustc -Zunpretty=expanded is a faithful macro expansion",
                        "only the ibig build is executed (translation validation); the other back ends are verified as text with their cfg-selected tail"],
        "trusted_base": ["vx (syn 2 dump)", "vlib/symex.py", "z3 4.8.12 / z3 5.1 / cvc5 1.0", "rustc nightly macro expansion"],
        "extra_cov": {"traces_validated_against_impl": n, "functions_using_Integer": users,
                      "backends": BACKENDS},
        "explanation": "Per back end: the macro-expanded body with that back end's cfg-selected sign-extraction tail is symbolically "
                       "executed; obligations: no i64 overflow, indices in range, determinant term = 24-term Leibniz determinant, "
                       "result = sign(det) as -1.0/0.0/1.0. All five share the same postcondition, which is 'identical signs on every input'.",
    }
    return results, meta
