"""C06 — periodic boundaries: the mechanisms (tripled initial cell, image enumeration, shift mapping, neighbour = generator + shift)."""
from . import grid, e3sets, rules, images, faces
from .. import smt, runner, kani


def run(tier, seed):
    obs, units = grid.cuboid_obligations("C06")
    fns = [{"fn": u.label, "slice_sha": u.sha} for u in units]
    o2, f2 = images.obligations("C06"); obs += o2; fns += f2
    o3, f3 = rules.shift_mapping_obligations("C06"); obs += o3; fns += f3
    o4, m4 = faces.bisector_obligations("C06")
    obs += [x for x in o4 if "labels_right_is_neighbour" in x.name or "neighbour_position" in x.name or "every_candidate" in x.name or "loop_runs_over" in x.name or x.expect_sat]; fns.append(m4)
    o5, u5 = grid.right_loc_obligations("C06")
    obs += [x for x in o5 if "neighbour_is_generator_plus_shift" in x.name or x.expect_sat]; fns += [{"fn": u.label, "slice_sha": u.sha} for u in u5]
    o6, us = faces.face_init_obligations("C06")
    obs += [x for x in o6 if "face_labels" in x.name]; fns += [{"fn": u_.label, "slice_sha": u_.sha} for u_ in us[1:2]]
    smt.discharge_all(obs, tier)
    results = [runner.from_smt(o) for o in obs]
    results += kani.run_specs("C06", e3sets.CUBOID, tier)
    fns.append({"fn": e3sets.U_CUB, "backend": "Kani on the real crate"})
    meta = {
        "level": "proof", "functions": fns,
        "assumptions": ["A-REAL for the E2 obligations", "E3 cuboid: " + e3sets.W_Q + "; thorough adds " + e3sets.W_T,
                        "the r-tree traversal hands every pushed (node, shift) pair back unchanged (rstar / BinaryHeap; see C17 for the traversal itself)",
                        "NOT decided: coincidence with the 3^d-fold replicated non-periodic tessellation, absence of boundary faces along periodic axes, "
                        "translation invariance - statements about the composed float algorithm (C01)"],
        "trusted_base": ["vx (syn 2 dump)", "vlib/symex.py", "z3 4.8.12 / z3 5.1 / cvc5 1.0", "Kani 0.68 / CBMC 6.11 IEEE-754 model"],
        "explanation": "The chain that makes a face shift a lattice vector, function by function: the iterator pushes exactly the 3^d shifts (i,j,k)*width on active axes, each once "
                       "(unrolled loop nest, all widths and dimensionalities); the map closure reports None iff the query shift is zero and the negated shift otherwise; build "
                       "places the neighbour at generator + shift and passes (right_idx, shift) into the half-space unchanged; right_loc reproduces generator + shift; the face "
                       "takes its labels from the half-space. cuboid triples the initial cell along exactly the active axes when periodic (reals: all boxes; bits: window).",
    }
    meta["assumptions"] = list(meta["assumptions"]) + kani.scan_assumptions()
    return results, meta
