"""E2 contract on the periodic-image enumeration of RTreeWrappingNearestNeighbourIter::new (C06, C08, C17 mechanism):
the shifts handed to extend_heap are exactly {(i, j, k) * width}, i in {-1,0,1}, j and k in {-1,0,1} on active axes and 0
otherwise, each exactly once — for every width and dimensionality. The loops are concrete (3 x 3 x 3), so this is unbounded."""
from .. import terms as tm, symex, extract
from ..terms import Var, Const, And, Or, Not, Eq, Lt, Le, Ge, Gt, Ite, Implies, TRUE, FALSE
from ..symex import Vec, Struct, Opt, SymArr, Arr
from ..e2 import *

RT = "rtree_nn.rs"


def isum(xs):
    r = xs[0]
    for x in xs[1:]: r = tm.Add(r, x)
    return r


@isolated('images')
def obligations(prefix):
    u = Unit(RT, "RTreeWrappingNearestNeighbourIter::new")
    stmts = u.fn["body"]["stmts"]
    # slice: from `let j_range` up to and including the `for i in ..` statement
    names = []
    start = None
    for n_, s_ in enumerate(stmts):
        if s_.get("k") == "let" and s_["pat"].get("name") == "j_range": start = n_
    if start is None: raise extract.Undecided("lost anchor: let j_range in RTreeWrappingNearestNeighbourIter::new")
    sl = stmts[start:start + 3]
    if len(sl) != 3 or sl[1].get("k") != "let" or sl[1]["pat"].get("name") != "k_range" or (sl[2].get("e") or {}).get("k") != "for":
        raise extract.Undecided("lost anchor: j_range, k_range, for i in -1..=1")
    if start + 3 != len(stmts) - 1: raise extract.Undecided("lost anchor: the loop nest is followed by the `result` tail expression only")
    W = Arr([real("w0"), real("w1"), real("w2")])
    dim, dimc = dim_enum()
    calls = []
    def extend_heap(interp, env, node, args):
        calls.append((env.pc, args[2]))
        return symex.UNIT
    ctx = symex.Ctx(); ctx.resolver = u.resolver(())
    ctx.contracts["RTreeWrappingNearestNeighbourIter::extend_heap"] = extend_heap
    ctx.contracts["ParentNode::children"] = lambda interp, env, node, args: Arr([])
    v, env, ctx, it = symex.run_stmts(sl, {"width": W, "dimensionality": dim, "root": Struct("ParentNode", {}),
                                           "result": Struct("RTreeWrappingNearestNeighbourIter", {})}, ctx, {}, "RTreeWrappingNearestNeighbourIter")
    if len(calls) != 27: raise extract.Undecided("expected 27 guarded extend_heap call sites in the unrolled loop nest, found %d" % len(calls))
    lab = u.label + " / image loop nest"
    P = dimc + ctx.assume + ctx.ok
    obs = [Obligation(prefix + ".images.requires_satisfiable", P, TRUE, lab, expect_sat=True)]
    act = [TRUE, Not(dim.is_("OneD")), dim.is_("ThreeD")]
    lat = [(i, j, k) for i in (-1, 0, 1) for j in (-1, 0, 1) for k in (-1, 0, 1)]
    def is_shift(sh, t):
        return And(*[Eq(sh.e[a], Const(t[a], "Real") * W.e[a]) for a in range(3)])
    # semantic formulation (no syntactic matching): for widths that are pairwise "generic" (all non-zero), each lattice vector
    # allowed by the dimensionality is pushed by exactly one enabled call site and no other vector is pushed
    nz = [tm.Ne(W.e[a], R0) for a in range(3)]
    for t in lat:
        wanted = And(*[TRUE if t[a] == 0 else act[a] for a in range(3)])
        cnt = isum([Ite(And(pc, is_shift(sh, t)), Const(1, "Int"), Const(0, "Int")) for pc, sh in calls])
        obs.append(Obligation(prefix + ".images.shift_%s_pushed_exactly_once_iff_axes_active" % "_".join(str(x).replace("-", "m") for x in t),
                              P + nz, Eq(cnt, Ite(wanted, Const(1, "Int"), Const(0, "Int"))), lab))
    total = isum([Ite(pc, Const(1, "Int"), Const(0, "Int")) for pc, sh in calls])
    obs.append(Obligation(prefix + ".images.number_of_images_is_3_pow_d", P,
                          Eq(total, Ite(dim.is_("OneD"), Const(3, "Int"), Ite(dim.is_("TwoD"), Const(9, "Int"), Const(27, "Int")))), lab))
    obs.append(Obligation(prefix + ".images.every_pushed_shift_is_a_lattice_vector_zero_on_inactive_axes", P,
                          And(*[Implies(pc, And(Or(*[is_shift(sh, t) for t in lat]),
                                                *[Implies(Not(act[a]), Eq(sh.e[a], R0)) for a in range(3)])) for pc, sh in calls]), lab))
    def replay_images(ob=None):
        from .c17 import traversal_probe
        n, bad = traversal_probe(20260930, 18)
        return {"reproduced": bad is not None, "searched": n, "mismatch": bad}
    for o in obs:
        if not o.expect_sat and o.replay is None: o.replay = replay_images
    return obs, [{"fn": lab, "slice_sha": extract.sha("".join(extract.text_of(u.tree, s_) for s_ in sl))}]
