"""Contracts on SimulationBoundary::{cuboid, iloc}, HalfSpace::right_loc and the initial-cell orientation
(C10 unit 2/3, C05, C06, C04 walls).  E2 over the reals + E3 (Kani) bit-precise on the real crate."""
from .. import terms as tm, symex, extract, kani
from ..terms import Var, Const, And, Or, Not, Eq, Lt, Le, Ge, Gt, Ite, Implies, TRUE
from ..symex import Vec, Struct, Opt, SymArr
from ..e2 import *
from ..runner import Result

XF = ("voronoi/half_space.rs", "geometry.rs", "voronoi/generator.rs")
AXES = "xyz"


def sym_cuboid(tag=""):
    u = Unit("voronoi/boundary.rs", "SimulationBoundary::cuboid")
    A, W = vec("A" + tag), vec("W" + tag)
    per = boolean("periodic" + tag)
    dim, dimc = dim_enum("dim" + tag)
    b, env, ctx, it = u.run({"anchor": A, "width": W, "periodic": per, "dimensionality": dim}, extra_files=XF)
    pre = dimc + [Gt(w, R0) for w in W.c]
    return u, b, ctx, pre, A, W, per, dim


def active(dim, axis):
    """axis is periodic-active: x always, y for 2D/3D, z for 3D"""
    return TRUE if axis == 0 else (Or(dim.is_("TwoD"), dim.is_("ThreeD")) if axis == 1 else dim.is_("ThreeD"))


def eff_box(A, W, per, dim):
    """walls of the initial cell per the property: tripled along the active axes when periodic"""
    lo = [Ite(And(per, active(dim, i)), A.c[i] - W.c[i], A.c[i]) for i in range(3)]
    hi = [Ite(And(per, active(dim, i)), A.c[i] + Const(2, "Real") * W.c[i], A.c[i] + W.c[i]) for i in range(3)]
    return lo, hi


@isolated('cuboid')
def cuboid_obligations(prefix):
    u, b, ctx, pre, A, W, per, dim = sym_cuboid()
    obs = []
    guard(obs, prefix + ".cuboid", u, pre, ctx)
    definedness(prefix + ".cuboid", u, pre, ctx, obs)
    lo, hi = eff_box(A, W, per, dim)
    planes = b.f["clipping_planes"].e
    if len(planes) != 6: raise extract.Undecided("cuboid: expected 6 walls")
    unit = lambda i, s: Vec([Const(s if k == i else 0, "Real") for k in range(3)])
    for k, pl in enumerate(planes):
        axis, is_max = k // 2, k % 2
        n, p = pl.f["plane"].f["n"], pl.f["plane"].f["p"]
        want_n = unit(axis, -1 if is_max else 1)
        wall = hi[axis] if is_max else lo[axis]
        ensure(obs, prefix + ".cuboid", "wall%d_unit_axis_normal_pointing_inward" % k, u, pre, ctx, veq(n, want_n))
        ensure(obs, prefix + ".cuboid", "wall%d_at_box_face_tripled_iff_periodic_active" % k, u, pre, ctx, Eq(p.c[axis], wall))
        ensure(obs, prefix + ".cuboid", "wall%d_no_neighbour_no_shift" % k, u, pre, ctx,
               And(Not(pl.f["right_idx"].some), Not(pl.f["shift"].some)))
    ensure(obs, prefix + ".cuboid", "no_panic_errb_positive", u, pre, ctx, And(*[Implies(o.pc, o.cond) for o in ctx.panics]) if ctx.panics else TRUE)
    return obs, [u]


def iloc_real_obligations(prefix):
    """iloc's rescaling over the reals: every queryable position satisfies the three debug assertions (1 <= loc' < 2)."""
    u, b, ctx, pre, A, W, per, dim = sym_cuboid()
    ui = Unit("voronoi/boundary.rs", "SimulationBoundary::iloc")
    x = vec("x")
    stmts = ui.fn["body"]["stmts"]
    n_pre = 0
    for s_ in stmts:
        if s_["k"] == "let" and n_pre == 0: n_pre = 1; continue
        if s_["k"] == "expr" and s_["e"].get("k") == "macro" and s_["e"]["name"] == "debug_assert": n_pre += 1; continue
        break
    if n_pre != 4: raise extract.Undecided("lost anchor: iloc = rescaling let + three debug_assert! (found %d)" % n_pre)
    ctx2 = symex.Ctx()
    _, env, ctx2, it = ui.run({"self": b, "loc": x}, ctx2, n_stmts=n_pre)
    lo, hi = eff_box(A, W, per, dim)
    width_eff = [hi[i] - lo[i] for i in range(3)]
    # queryable: generators/periodic images inside the walls, mirror images one box width beyond, both ends attained
    q = [And(Le(lo[i] - width_eff[i], x.c[i]), Le(x.c[i], hi[i] + width_eff[i])) for i in range(3)]
    obs = []
    P = pre + q
    guard(obs, prefix + ".iloc_real", ui, P, ctx2)
    o = Obligation(prefix + ".iloc_real.defined", P + ctx.assume, And(*[Implies(ob.pc, ob.cond) for ob in ctx2.obls + ctx.obls]), ui.label)
    obs.append(o)
    if len(ctx2.panics) != 3: raise extract.Undecided("iloc: expected 3 debug assertions")
    for ax, pz in zip(AXES, ctx2.panics):
        obs.append(Obligation(prefix + ".iloc_real.rescaled_%s_in_1_2_for_every_queryable_position" % ax, P + ctx.assume, Implies(pz.pc, pz.cond), ui.label,
                              note="closed interval [lo - W, hi + W]: mirror of a generator on a wall through the opposite wall"))
    # strictly increasing in the position (monotone grid map, over the reals)
    y = vec("y")
    ctx3 = symex.Ctx()
    _, env3, ctx3, _ = ui.run({"self": b, "loc": y}, ctx3, n_stmts=1)
    lx, ly = env.vars["loc"], env3.vars["loc"]
    for i, ax in enumerate(AXES):
        obs.append(Obligation(prefix + ".iloc_real.rescaling_strictly_increasing_%s" % ax, pre + ctx.assume, Implies(Lt(x.c[i], y.c[i]), Lt(lx.c[i], ly.c[i])), ui.label))
    return obs, [ui]


def sym_generators(name="g"):
    def factory(i):
        k = "%s%d" % (name, len(factory.made)); factory.made.append(i)
        return Struct("Generator", {"loc": vec(k + "_loc"), "id": Var(k + "_id", "Int")})
    factory.made = []
    return SymArr(factory)


def replay_right_loc(ob=None):
    """HalfSpace::right_loc on the real crate: a neighbour plane must give generator + shift, a wall the mirror image of the left generator."""
    import random
    from ..runner import replay_requests
    rng = random.Random(20260930)
    reqs, want = [], []
    for t in range(60):
        gens = [[rng.uniform(-2, 2) for _ in range(3)] for _ in range(3)]
        if t % 2 == 0:
            sh = [rng.choice([-1.5, 0.0, 1.5]) for _ in range(3)] if t % 4 == 0 else None
            reqs.append({"op": "right_loc", "gens": gens, "n": [1.0, 0.0, 0.0], "p": [0.0, 0.0, 0.0], "right": 1, "shift": sh, "left": 0})
            want.append([gens[1][i] + (sh[i] if sh else 0.0) for i in range(3)])
        else:
            ax = rng.randrange(3); s_ = rng.choice([-1.0, 1.0]); wall = rng.uniform(-3, 3)
            n = [s_ if i == ax else 0.0 for i in range(3)]; p = [rng.uniform(-3, 3) if i != ax else wall for i in range(3)]
            reqs.append({"op": "right_loc", "gens": gens, "n": n, "p": p, "right": None, "shift": None, "left": 0})
            want.append([gens[0][i] if i != ax else 2 * wall - gens[0][i] for i in range(3)])
    bad = []
    for rq, w_, a in zip(reqs, want, replay_requests(reqs, timeout=120)):
        r = a.get("r")
        if r is None or max(abs(r[i] - w_[i]) for i in range(3)) > 1e-9: bad.append({"request": rq, "real": a, "expected": w_})
    return {"reproduced": bool(bad), "runs": bad[:2], "what": "HalfSpace::right_loc: neighbour position != generator + shift, or wall image != mirror image"}


@isolated('right_loc')
def right_loc_obligations(prefix):
    """HalfSpace::right_loc: neighbour position = generator (+ shift); for a wall, the mirror image of the left generator."""
    u, b, ctx, pre, A, W, per, dim = sym_cuboid()
    ur = Unit("voronoi/half_space.rs", "HalfSpace::right_loc")
    obs = []
    lo, hi = eff_box(A, W, per, dim)
    planes = b.f["clipping_planes"].e
    left = Var("left_idx", "Int")
    for k, pl in enumerate(planes):
        gens = sym_generators("gw%d_" % k)
        c2 = symex.Ctx()
        r, env, c2, it = ur.run({"self": pl, "left_idx": left, "generators": gens}, c2, extra_files=XF + ("voronoi/boundary.rs",))
        g = gens.memo[left].f["loc"]
        axis, is_max = k // 2, k % 2
        wall = hi[axis] if is_max else lo[axis]
        inside = [And(Le(lo[i], g.c[i]), Le(g.c[i], hi[i])) for i in range(3)]
        P = pre + inside + ctx.assume + c2.assume + c2.ok
        if k == 0: obs.append(Obligation(prefix + ".right_loc.requires_satisfiable", P, TRUE, ur.label, expect_sat=True))
        obs.append(Obligation(prefix + ".right_loc.wall%d.defined" % k, P, And(*[Implies(o.pc, o.cond) for o in c2.obls]) if c2.obls else TRUE, ur.label))
        want = [(Const(2, "Real") * wall - g.c[i]) if i == axis else g.c[i] for i in range(3)]
        obs.append(Obligation(prefix + ".right_loc.wall%d_is_mirror_image_of_left_generator" % k, P, veq(r, Vec(want)), ur.label))
        weff = hi[axis] - lo[axis]
        obs.append(Obligation(prefix + ".right_loc.wall%d_mirror_within_one_width_beyond_wall" % k, P,
                              And(Le(lo[axis] - weff, r.c[axis]), Le(r.c[axis], hi[axis] + weff)), ur.label))
    # neighbour case
    n_, p_ = vec("hn"), vec("hp")
    ridx = Var("right_idx", "Int")
    sh = vec("shift")
    hs = Struct("HalfSpace", {"plane": Struct("Plane", {"n": n_, "p": p_}), "d": real("hd"), "errb": real("herrb"),
                              "right_idx": Opt(TRUE, ridx), "shift": option("shift", sh)})
    gens = sym_generators("gn_")
    c3 = symex.Ctx()
    r, env, c3, it = ur.run({"self": hs, "left_idx": left, "generators": gens}, c3, extra_files=XF)
    gl = gens.memo[ridx].f["loc"]
    obs.append(Obligation(prefix + ".right_loc.neighbour_is_generator_plus_shift", c3.assume + c3.ok,
                          veq(r, Vec([Ite(hs.f["shift"].some, gl.c[i] + sh.c[i], gl.c[i]) for i in range(3)])), ur.label))
    for o_ in obs:
        if not o_.expect_sat and o_.replay is None: o_.replay = replay_right_loc
    return obs, [ur]


def init_triples():
    """The literal (i, j, k) arguments of the eight Vertex::from_dual calls in ConvexCell::init (read from the AST)."""
    tree = extract.vx_dump(extract.src_path("voronoi/convex_cell.rs"))
    fn = extract.find_fn(tree, "ConvexCell::init")
    calls = extract.find_nodes(fn["body"], lambda n: n.get("k") == "call" and n["f"].get("k") == "path" and n["f"]["segs"][-2:] == ["Vertex", "from_dual"])
    out = []
    for c in calls:
        idx = []
        for a in c["args"][:3]:
            if a.get("k") != "lit" or a["ty"] != "int": raise extract.Undecided("init: non-literal dual index")
            idx.append(int(a["v"]))
        out.append(tuple(idx))
    if len(out) != 8: raise extract.Undecided("lost anchor: eight Vertex::from_dual calls in ConvexCell::init (found %d)" % len(out))
    return out, extract.sha(extract.text_of(tree, fn))


def orientation_obligations(prefix):
    """C10 unit 2: for a generator strictly inside the box the eight initial vertex duals are positively oriented for the
    mirror images (O = det[B C D] > 0), which makes the sign of the predicate mean 'inside'."""
    u, b, ctx, pre, A, W, per, dim = sym_cuboid()
    ur = Unit("voronoi/half_space.rs", "HalfSpace::right_loc")
    triples, sha_init = init_triples()
    lo, hi = eff_box(A, W, per, dim)
    planes = b.f["clipping_planes"].e
    left = Var("left_idx", "Int")
    gens = sym_generators("go_")
    mir, assume = [], []
    for k, pl in enumerate(planes):
        c2 = symex.Ctx()
        r, env, c2, it = ur.run({"self": pl, "left_idx": left, "generators": gens}, c2, extra_files=XF)
        mir.append(r); assume += c2.assume + c2.ok
    g = gens.memo[left].f["loc"]
    strictly = [And(Lt(lo[i], g.c[i]), Lt(g.c[i], hi[i])) for i in range(3)]
    P = pre + strictly + ctx.assume + assume
    obs = [Obligation(prefix + ".orientation.requires_satisfiable", P, TRUE, "ConvexCell::init", expect_sat=True)]
    seen = set()
    for t in triples:
        B, C, D = [sub(mir[i], g) for i in t]
        obs.append(Obligation(prefix + ".orientation.init_dual_%d_%d_%d_positively_oriented" % t, P, Gt(det3(B, C, D), R0), "voronoi::convex_cell::ConvexCell::init"))
        seen.add(frozenset(t))
    # the eight triples are the eight corners: each is one wall per axis, all distinct
    ok = len(seen) == 8 and all(sorted(i // 2 for i in t) == [0, 1, 2] for t in triples)
    obs.append(Obligation(prefix + ".orientation.init_duals_are_the_eight_corners", [], Const(bool(ok)), "voronoi::convex_cell::ConvexCell::init",
                          note="syntactic: %r" % (triples,)))
    return obs, [ur], sha_init


# ------------------------------------------------------------------ E3
QUICK = ["iloc_domain_x_q", "iloc_domain_y_q", "iloc_domain_z_q"]
THOROUGH = ["iloc_domain_x_w1", "iloc_domain_x_w2", "iloc_domain_x_w3", "iloc_domain_x_w4"]
UNIT_E3 = "voronoi::boundary::SimulationBoundary::{cuboid,iloc} (Kani, /verif/kani/boundary.rs)"


def decode_finder(vals):
    a, w, g = [kani.as_f64(v) for v in vals[:3]]
    return {"anchor": a, "width": w, "generator": g, "mirror": 2.0 * (a + w) - g}


def replay_iloc(cx):
    from ..runner import replay_requests
    a, w, m = cx["anchor"], cx["width"], cx["mirror"]
    req = {"op": "iloc", "anchor": [a, 0.0, 0.0], "width": [w, 1.0, 1.0], "loc": [m, 0.5, 0.5], "dim": 3}
    ans = {}
    for profile in ("debug", "release"):
        ans[profile] = replay_requests([req], profile)[0]
    bad_debug = bool(ans["debug"].get("panic"))
    r = ans["release"].get("r")
    bad_release = r is None or not (0 <= r[0] < 2 ** 52) or (m > a and r is not None and r[0] == 0)
    return {"request": req, "answers": ans, "reproduced": bad_debug or bad_release,
            "what": "debug build panics in iloc (debug_assert) / release build wraps the coordinate"}


def kani_results(prefix, tier):
    names = QUICK + (THOROUGH if tier == "thorough" else [])
    verdicts, out, dt = kani.run_harnesses(names + ["iloc_domain_cover"], timeout=900 if tier == "quick" else 3600,
                                           solver="kissat" if tier == "thorough" else None)
    results = []
    for n in names:
        results.append(kani.classify(n, verdicts[n], prefix + ".iloc_bits", UNIT_E3))
    results.append(kani.classify("iloc_domain_cover", verdicts["iloc_domain_cover"], prefix + ".iloc_bits", UNIT_E3, expect_covers=2))
    if any(r.status == "refuted" for r in results):
        # concrete input from the finder harness, replayed on the real crate (debug and release)
        v2, _, _ = kani.run_harnesses(["iloc_finder_mirror"], timeout=600)
        cx, rep = None, None
        if v2["iloc_finder_mirror"]["status"] == "FAILED":
            vals, pout = kani.playback("iloc_finder_mirror")
            if len(vals) >= 3:
                cx = decode_finder(vals); rep = replay_iloc(cx)
        for r in results:
            if r.status == "refuted": r.counterexample, r.replay = cx, rep
    return results


def replay_iloc_model(ob):
    """Replay an E2 (real-valued) counterexample of the grid-domain contract on the compiled crate."""
    from ..runner import replay_requests
    m = ob.model or {}
    f = lambda k, d=0.0: float(m.get(k, d))
    dimv = int(m.get("dim", 2))
    req = {"op": "iloc", "anchor": [f("A_x"), f("A_y"), f("A_z")], "width": [f("W_x", 1), f("W_y", 1), f("W_z", 1)],
           "loc": [f("x_x"), f("x_y"), f("x_z")], "dim": dimv + 1, "periodic": bool(m.get("periodic", False))}
    ans = {p: replay_requests([req], p)[0] for p in ("debug", "release")}
    r = ans["release"].get("r")
    bad_release = r is None or not all(0 <= c < 2 ** 52 for c in r)
    return {"request": req, "answers": ans, "reproduced": bool(ans["debug"].get("panic")) or bad_release,
            "what": "position queried by the algorithm (closed interval end point) leaves the [1,2) rescaling: debug_assert panics / release wraps"}


def e2_obligations(prefix, parts=("cuboid", "iloc_real", "right_loc", "orientation")):
    obs, units, extra = [], [], {}
    if "cuboid" in parts:
        o, u = cuboid_obligations(prefix); obs += o; units += u
    if "iloc_real" in parts:
        o, u = iloc_real_obligations(prefix)
        for x in o:
            if "rescaled_" in x.name: x.replay = replay_iloc_model
        obs += o; units += u
    if "right_loc" in parts:
        o, u = right_loc_obligations(prefix); obs += o; units += u
    if "orientation" in parts:
        o, u, sha_init = orientation_obligations(prefix); obs += o; units += u
        extra["ConvexCell::init slice_sha"] = sha_init
    return obs, units, extra
