"""C08 — 1D and 2D tessellations depend only on the active coordinates (the projection mechanisms)."""
from . import dims, grid, e3sets, rules, images
from .. import smt, runner, kani


def run(tier, seed):
    obs, units = dims.from_dual_obligations("C08")
    o2, u2 = dims.normalisation_obligations("C08"); obs += o2
    o3, u3 = grid.cuboid_obligations("C08")          # walls over the reals: tripled along exactly the active axes
    obs += o3
    o4, f4 = images.obligations("C08"); obs += o4      # periodic images only along the active axes
    smt.discharge_all(obs, tier)
    results = [runner.from_smt(o) for o in obs]
    results += kani.run_specs("C08", e3sets.GENERATOR + e3sets.VALID + e3sets.CUBOID, tier)
    fns = [{"fn": u.label, "slice_sha": u.sha} for u in units + u3] + u2 + f4
    fns += [{"fn": x, "backend": "Kani on the real crate"} for x in (e3sets.U_GEN, e3sets.U_VALID, e3sets.U_CUB)]
    meta = {
        "level": "proof", "functions": fns,
        "assumptions": ["A-REAL for the E2 obligations (from_dual, normalisation prefix, cuboid over the reals)",
                        "E3 cuboid: " + e3sets.W_Q + "; thorough adds " + e3sets.W_T,
                        "intersect_planes is replaced by a fresh result in from_dual (its own contract is C19's)",
                        "NOT decided: '1D equals the closed form', '2D equals the 3D slab', measures are lengths/areas - statements about the composed float algorithm (C01/C02)"],
        "trusted_base": ["vx (syn 2 dump)", "vlib/symex.py", "z3 4.8.12 / z3 5.1 / cvc5 1.0", "Kani 0.68 / CBMC 6.11 IEEE-754 model, CaDiCaL"],
        "explanation": "Generator::new keeps the id and the active coordinates bit for bit and zeroes the unused ones for every bit pattern (kani::ensures on the real function, "
                       "plus the 2-safety form); vector_is_valid holds iff the unused components are exactly zero (kani::ensures, all bit patterns); the anchor/width "
                       "normalisation prefix of both build routes overwrites exactly the unused components with (-0.5, 1); Vertex::from_dual measures radius2 in the active "
                       "subspace; cuboid triples exactly the active axes when periodic (reals: all boxes; bits: stated window).",
    }
    meta["assumptions"] = list(meta["assumptions"]) + kani.scan_assumptions()
    return results, meta
