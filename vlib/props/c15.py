"""C15 — extracted vertices and face polygons: ordering / index contracts (E1 Verus on verbatim slices, E3 Kani)."""
import os
from .. import verus, runner, extract, kani, smt
from ..runner import Result
from ..smt import Obligation
from ..terms import Const
from . import e3sets
from ..e2 import isolated

SPEC = os.path.join(extract.VERIF, "contracts", "c15.vspec")
CC = "voronoi/convex_cell.rs"
LAYOUT = [
    ("struct", CC, "Vertex"),
    ("struct_keep", CC, "ConvexCell", "VxConvexCell", ["vertices"]),
    ("text", "text specs"),
    ("impl", "impl Vertex", [(CC, "Vertex::plane_idx")]),
    ("impl", "impl VxConvexCell", [(CC, "ConvexCell::sort_face_vertices")]),
]
FNS = {
    "plane_idx": "plane_idx.first_position_of_plane_in_dual_none_iff_absent_terminates",
    "sort_face_vertices": "sort_face_vertices.permutes_indices_keeps_first_corner_consecutive_corners_share_an_edge_terminates",
}
UNIT = "voronoi::convex_cell::{Vertex::plane_idx, ConvexCell::sort_face_vertices} (Verus, verbatim slices)"


def typestate_obligations(prefix):
    """'face data is always present when it is accessed without a check': the only expressions of type ConvexCell<WithFaces> are produced by with_faces
    (which sets both Options to Some immediately before the transition) and by transition itself; discard_faces resets both. Syntactic."""
    tree = extract.vx_dump(extract.src_path(CC))
    fns = extract.all_fns(tree)
    obs = []
    wf = fns.get("ConvexCell::with_faces")
    if wf is None: raise extract.Undecided("lost anchor: ConvexCell::with_faces")
    st = wf["body"]["stmts"]
    txt = [extract.text_of(tree, s).replace(" ", "").replace("\n", "") for s in st]
    ok = (len(st) >= 3 and txt[-3].startswith("self.faces=Some(faces)") and txt[-2].startswith("self.face_vertex_connections=Some(")
          and txt[-1] == "ConvexCell::transition(self)")
    obs.append(Obligation(prefix + ".typestate.with_faces_sets_both_options_to_some_then_transitions", [], Const(bool(ok)), "voronoi::convex_cell::ConvexCell::with_faces", note="syntactic"))
    # unchecked accessors exist only in impl ConvexCell<WithFaces>
    unchecked = [name for name, fn in fns.items() if "unwrap_unchecked" in extract.text_of(tree, fn)]
    obs.append(Obligation(prefix + ".typestate.unchecked_access_only_in_faces_and_face_vertex_connections", [],
                          Const(sorted(unchecked) == ["ConvexCell::face_vertex_connections", "ConvexCell::faces"]), "voronoi::convex_cell", note="syntactic: %r" % unchecked))
    # transition::<N> is called only from with_faces and discard_faces; struct literals of ConvexCell only in new and transition
    callers = [name for name, fn in fns.items() if "ConvexCell::transition(" in extract.text_of(tree, fn["body"]).replace(" ", "")]
    obs.append(Obligation(prefix + ".typestate.transition_called_only_from_with_faces_and_discard_faces", [],
                          Const(sorted(callers) == ["ConvexCell::discard_faces", "ConvexCell::with_faces"]), "voronoi::convex_cell", note="syntactic: %r" % callers))
    # writers of the two Option fields
    writers = set()
    for name, fn in fns.items():
        for a in extract.find_nodes(fn["body"], lambda n: n.get("k") == "assign"):
            l = extract.text_of(tree, a["l"]).replace(" ", "")
            if l in ("self.faces", "self.face_vertex_connections"): writers.add(name)
    obs.append(Obligation(prefix + ".typestate.option_fields_written_only_by_with_faces_and_discard_faces", [],
                          Const(sorted(writers) == ["ConvexCell::discard_faces", "ConvexCell::with_faces"]), "voronoi::convex_cell", note="syntactic: %r" % sorted(writers)))
    # the fields are private (no outside writer)
    stc = extract.all_items(tree, "struct")["ConvexCell"]
    priv = all(f.get("vis") is None for f in stc["fields"] if f["name"] in ("faces", "face_vertex_connections", "_phantom"))
    obs.append(Obligation(prefix + ".typestate.option_fields_and_marker_are_private", [], Const(bool(priv)), "voronoi::convex_cell::ConvexCell", note="syntactic"))
    return obs


def run(tier, seed):
    text, slices, spec = verus.assemble(SPEC, LAYOUT)
    r = verus.run("c15", text, timeout=300 if tier == "quick" else 900)
    fns = dict(FNS)
    fns["witness_contracts_are_satisfiable"] = "witness.contracts_are_satisfiable"
    results = verus.results_per_function("C15", r, text, fns, UNIT)
    for x in results:
        if x.name.endswith("witness.contracts_are_satisfiable"):
            x.backend = "guard"
            if x.status == "discharged": x.status = "vacuity-ok"
    obs = typestate_obligations("C15")
    o2, f2 = accessor_obligations("C15"); obs += o2
    smt.discharge_all(obs, tier)
    results += [runner.from_smt(o) for o in obs]
    kr = kani.run_specs("C15", e3sets.PLANE_IDX + e3sets.WITH_FACES, tier)
    for x in kr:
        if x.status == "refuted" and "with_faces.rejects" in x.name:
            from ..runner import replay_requests
            reqs = [{"op": "with_faces_lowdim", "gens": [[0.2, 0.3 if d == 2 else 0.0, 0.0], [0.7, 0.6 if d == 2 else 0.0, 0.0]], "anchor": [0, 0, 0], "width": [1, 1, 1], "dim": d, "periodic": False} for d in (1, 2)]
            ans = replay_requests(reqs, timeout=120)
            acc = [dict(rq, real=a) for rq, a in zip(reqs, ans) if not a.get("per_cell_rejected", True)]
            x.replay = {"reproduced": bool(acc), "runs": acc, "what": "ConvexCell::with_faces on a cell of a 1D / 2D tessellation (get_cell_at(0).clone().with_faces()) is accepted instead of rejected"}
            x.counterexample = acc or x.counterexample
    results += kr
    # polytope validity is NOT decided by any contract in reach: bounded stand-in on the real crate, labelled
    npc, pb = polytope_probe(seed, 14 if tier == "quick" else 150)
    results.append(Result("C15.bounded.real_cells_with_faces_are_valid_convex_polytopes", "R", "discharged" if pb is None else "refuted", 0.0, "replay",
                          "" if pb is None else repr(pb)[:3000], "VoronoiIntegrator::build(..).with_faces() and the ConvexCell<WithFaces> accessors (public API, real crate)",
                          bounded="%d cells of random 3D tessellations (1..20 generators, periodic and not), seed %d" % (npc, seed),
                          counterexample=pb, replay={"reproduced": pb is not None, "mismatch": pb}))
    meta = {
        "level": "proof",
        "functions": slices + f2 + [{"fn": e3sets.U_PLANE_IDX, "backend": "Kani on the real crate"}, {"fn": e3sets.U_WITH_FACES, "backend": "Kani on the real crate"}],
        "assumptions": verus.scan_assumptions(text) + [
            "vx_panic / vx_unwrap: diverging stubs - sort_face_vertices may panic ('There always must be a next vertex'): its postcondition holds when it returns",
            "assume_specification of <[usize]>::contains and <[T]>::swap (std)",
            "W7: ConvexCell reduced to its `vertices` field for sort_face_vertices",
            "the type-state obligations are syntactic checks over the AST; the transmute in ConvexCellDecomposition::new and the two unwrap_unchecked accessors are unverified unsafe code",
            "NOT proved: vertex = intersection of its planes inside all half-spaces, planarity / convexity / counter-clockwise order, V - E + F = 2, polygon area = face integral, "
            "discard + re-derive = identity (polytope validity: statements about the composed float algorithm; with_faces' vertex collection and face offsets are iterator code outside E1): "
            "covered by a BOUNDED stand-in on the real crate only, labelled"],
        "trusted_base": ["Verus 0.2026.09.13 + Z3", "vx (syn 2 dump)", "vlib/verus.py splice rules W1-W7", "Kani 0.68 / CBMC 6.11"],
        "extra_cov": {"verus_functions_verified": (r["json"] or {}).get("verification-results", {}).get("verified"), "assembled_file": r["path"]},
        "explanation": "Vertex::plane_idx returns the first position of the plane in the dual or None, within three iterations (Verus, and Kani over all 2^256 inputs); "
                       "sort_face_vertices only permutes the index list (indices stay valid), keeps the first corner and orders the rest so that consecutive corners share "
                       "an edge of the face, and terminates; with_faces panics for 1D and 2D cells and not for 3D; face data is Some whenever the unchecked accessors "
                       "can be reached (syntactic type-state obligations).",
    }
    meta["assumptions"] = list(meta["assumptions"]) + kani.scan_assumptions()
    return results, meta


@isolated('accessors')
def accessor_obligations(prefix):
    """'Neighbour and shift accessors agree with the face integrals': for every face f of a cell with face data, neighbour(f) / shift(f) /
    clipping_plane(f) read the half-space faces[f].clipping_plane, the very half-space FaceIntegrator::init labels the face integral of that
    plane with; face_vertex_count / face_vertices read the slice [vertex_offset, vertex_offset + vertex_count)."""
    from .. import symex, terms as tm
    from ..terms import Var, And, Eq, Implies, TRUE
    from ..symex import Struct, SymArr, Opt
    from ..e2 import Unit, vec, option, real
    from . import faces as F
    XF = ("voronoi/half_space.rs", "geometry.rs", "voronoi/integrals.rs")
    obs, fns = [], []
    made = []
    def face(i):
        k = "face%d" % len(made); made.append(i)
        return Struct("ConvexCellFace", {"clipping_plane": Var(k + "_plane", "Int", "usize"), "vertex_count": Var(k + "_count", "Int", "usize"),
                                         "vertex_offset": Var(k + "_offset", "Int", "usize")})
    cell, planes = F.sym_cell("wf")
    f = Var("face_idx", "Int", "usize")
    same_opt = lambda a, b, eqf: And(Eq(a.some, b.some), Implies(a.some, eqf(a.val, b.val)))
    veq = lambda a, b: And(*[Eq(x, y) for x, y in zip(a.c, b.c)])
    for name, field, eqf in (("neighbour", "right_idx", Eq), ("shift", "shift", veq)):
        u = Unit(CC, "ConvexCell::" + name)
        facearr = SymArr(face)
        ctx = symex.Ctx()
        ctx.contracts["ConvexCell::faces"] = lambda interp, env, node, args, fa=facearr: fa     # type-state: Some(faces) (obligations above)
        r, env, ctx, it = u.run({"self": cell, "face_idx": f}, ctx, extra_files=XF)
        if f not in facearr.memo: raise extract.Undecided("lost anchor: %s no longer reads faces()[face_idx]" % name)
        k = facearr.memo[f].f["clipping_plane"]
        # the face integral of that plane carries the labels FaceIntegrator::init copies from the same half-space
        ui = Unit("voronoi/integrals.rs", "FaceIntegrator::init")
        ctx2 = symex.Ctx(); ctx2.contracts["I::init_with_data"] = lambda interp, env, node, args: Struct("I", {})
        r2, env2, ctx2, _ = ui.run({"cell": cell, "clipping_plane_idx": k, "data": symex.UNIT}, ctx2, extra_files=XF)
        lab = r2.f["right"] if field == "right_idx" else r2.f["shift"]
        if not isinstance(r, Opt): raise extract.Undecided("%s does not return an Option" % name)
        obs.append(Obligation("%s.accessors.%s_of_face_agrees_with_the_label_of_its_face_integral" % (prefix, name), ctx.assume + ctx.ok + ctx2.assume + ctx2.ok,
                              same_opt(r, lab, eqf), u.label, replay=replay_accessors))
        fns.append({"fn": u.label, "slice_sha": u.sha})
    return obs, fns


def replay_accessors(ob):
    """Small 3D tessellations (periodic with 1-3 generators, where a cell borders its own images, and a reflective one) through the public
    API: every stored VoronoiFace with left = c must be found among (neighbour(f), shift(f)) of cell c's faces."""
    from ..runner import replay_requests
    base = [[0.3, 0.4, 0.6], [0.7, 0.6, 0.2], [0.5, 0.1, 0.9], [0.15, 0.8, 0.35]]
    reqs = [{"op": "cell_face_labels", "gens": base[:n], "anchor": [0, 0, 0], "width": [1, 1, 1], "periodic": per} for n, per in ((1, True), (2, True), (3, True), (4, False))]
    bad = []
    key = lambda r, s: (r, None if s is None else tuple(round(x, 9) for x in s))
    for rq, a in zip(reqs, replay_requests(reqs, timeout=300)):
        for c in a.get("cells", []):
            have = [key(x["neighbour"], x["shift"]) for x in c["accessors"]]
            for st in c["stored_faces_with_this_left"]:
                if key(st["right"], st["shift"]) not in have:
                    bad.append({"request": rq, "cell": c["idx"], "stored_face": st, "accessor_labels": c["accessors"]}); break
    return {"reproduced": bool(bad), "runs": bad[:2], "what": "neighbour(f)/shift(f) of a cell's faces do not reproduce the (right, shift) labels of its stored faces"}


def polytope_probe(seed, n_sets):
    """C15's sentences on real 3D cells with face information (public API): every vertex is the intersection of its three planes, inside all
    half-spaces, in exactly three faces; every face is a planar convex polygon, counter-clockwise about the inward normal, whose area equals the
    face's area integral; V - E + F = 2; accessors agree with the face integrals; discarding and re-deriving faces is the identity."""
    import random
    from ..runner import replay_requests
    rng = random.Random(seed)
    reqs = []
    for t in range(n_sets):
        n = rng.choice([1, 2, 3, 8, 20])
        w = [1.0, rng.choice([1.0, 1.4]), rng.choice([1.0, 0.7])]
        an = [rng.choice([0.0, -2.0]), 0.0, rng.choice([0.0, 5.0])]
        gens = [[an[a] + (0.02 + 0.96 * rng.random()) * w[a] for a in range(3)] for _ in range(n)]
        reqs.append({"op": "polytope", "gens": gens, "anchor": an, "width": w, "periodic": bool(t % 2)})
    sub = lambda a, b: [a[i] - b[i] for i in range(3)]
    dot = lambda a, b: sum(a[i] * b[i] for i in range(3))
    cross = lambda a, b: [a[1] * b[2] - a[2] * b[1], a[2] * b[0] - a[0] * b[2], a[0] * b[1] - a[1] * b[0]]
    ncells = 0
    for rq, a in zip(reqs, replay_requests(reqs, timeout=900)):
        if "cells" not in a: return ncells, {"request": rq, "real": a, "what": "construction panics"}
        sc = max(rq["width"]); tol = 1e-8 * sc
        for c in a["cells"]:
            ncells += 1
            V, P, F = c["vertices"], c["planes"], c["faces"]
            bad = lambda what, **kw: (ncells, dict({"request": rq, "cell": c["idx"], "what": what}, **kw))
            for vi, v in enumerate(V):
                for k in v["dual"]:
                    if abs(dot(sub(v["loc"], P[k]["p"]), P[k]["n"])) > tol: return bad("vertex is not on one of its three planes", vertex=vi, plane=k)
                if min(dot(sub(v["loc"], pl["p"]), pl["n"]) for pl in P) < -tol: return bad("vertex lies outside a half-space of the cell", vertex=vi)
                if sum(vi in f["vertices"] for f in F) != 3: return bad("vertex does not belong to exactly three faces", vertex=vi, in_faces=sum(vi in f["vertices"] for f in F))
            edges = 0
            for fi, f in enumerate(F):
                idx = f["vertices"]; m = len(idx)
                if m < 3 or m != f["count"] or len(set(idx)) != m: return bad("face vertex list is not a simple polygon", face=fi, vertices=idx)
                edges += m
                n_in = f["plane"]["n"]
                pts = [V[i]["loc"] for i in idx]
                if any(abs(dot(sub(p_, f["plane"]["p"]), n_in)) > tol for p_ in pts): return bad("face polygon is not planar (vertex off the face's plane)", face=fi)
                area2 = 0.0
                for k in range(m):
                    p0, p1, p2 = pts[k], pts[(k + 1) % m], pts[(k + 2) % m]
                    if dot(cross(sub(p1, p0), sub(p2, p1)), n_in) < -tol * sc: return bad("face polygon is not convex / not counter-clockwise about the inward normal", face=fi, corner=(k + 1) % m)
                for k in range(1, m - 1): area2 += dot(cross(sub(pts[k], pts[0]), sub(pts[k + 1], pts[0])), n_in)
                key = lambda r_, s_: (r_, None if s_ is None else tuple(round(x, 9) for x in s_))
                match = [x for x in c["areas"] if key(x["right"], x["shift"]) == key(f["neighbour"], f["shift"])]
                if f["neighbour"] is not None:
                    if len(match) != 1: return bad("accessors (neighbour, shift) of a face do not match exactly one face integral", face=fi, neighbour=f["neighbour"], shift=f["shift"], matches=len(match))
                    if abs(match[0]["area"] - area2 / 2) > 1e-8 * sc * sc: return bad("polygon area differs from the face's area integral", face=fi, polygon=area2 / 2, integral=match[0]["area"])
            if len(V) - edges // 2 + len(F) != 2 or edges % 2: return bad("V - E + F != 2", V=len(V), E=edges / 2, F=len(F))
            f2 = c["faces_after_discard_and_rederive"]
            if [(x["vertices"], x["neighbour"], x["shift"]) for x in F] != [(x["vertices"], x["neighbour"], x["shift"]) for x in f2]:
                return bad("discarding and re-deriving the faces is not the identity")
    return ncells, None
