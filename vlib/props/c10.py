"""C10 — exact in-sphere predicate returns the true sign on the integer grid; grid map stays in domain."""
from . import insphere
from .. import smt, runner, extract


def run(tier, seed):
    obs, m = insphere.obligations("C10.insphere", feature="ibig", with_meaning=True)
    smt.discharge_all(obs, tier)
    results = [runner.from_smt(o, insphere.replay_model) for o in obs]
    n, bad = insphere.validate_translation(m, seed, 200 if tier == "quick" else 5000)
    if bad:
        raise extract.Undecided("translation mismatch (symbolic term vs compiled function): %r" % bad[:2])
    meta = {
        "level": "proof",
        "functions": [{"fn": m["unit"], "slice_sha": m["slice_sha"]}],
        "assumptions": ["A-BIG (ibig implements Z exactly)", "rustc -Zunpretty=expanded is a faithful macro expansion"],
        "trusted_base": ["vx (syn 2 dump)", "vlib/symex.py", "z3 4.8.12 / z3 5.1 / cvc5 1.0", "rustc nightly macro expansion"],
        "extra_cov": {"traces_validated_against_impl": n},
        "explanation": "",
    }
    return results, meta
