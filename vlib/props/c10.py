"""C10 — exact in-sphere predicate returns the true sign on the integer grid; the grid map stays in its domain."""
from . import insphere, grid
from .. import smt, runner, extract, kani

A_ROUND = ("A-ROUND: the float evaluation of the handful of operations computing a mirror image (HalfSpace::right_loc, glam project_onto) "
           "or a periodic image is within 2^-30 * width of its real value; stated, not machine-checked (the E3 harnesses include that slack)")


def run(tier, seed):
    obs, m = insphere.obligations("C10.insphere", feature="ibig", with_meaning=True)
    for o in obs: o.replay = insphere.replay_model
    gobs, units, extra = grid.e2_obligations("C10.grid")
    smt.discharge_all(obs + gobs, tier)
    results = [runner.from_smt(o) for o in obs + gobs]
    results += grid.kani_results("C10.grid", tier)
    n, bad = insphere.validate_translation(m, seed, 200 if tier == "quick" else 5000)
    if bad:
        raise extract.Undecided("translation mismatch (symbolic term vs compiled function): %r" % bad[:2])
    meta = {
        "level": "proof",
        "functions": [{"fn": m["unit"], "slice_sha": m["slice_sha"]}] + [{"fn": u.label, "slice_sha": u.sha} for u in units]
                     + [{"fn": grid.UNIT_E3, "backend": "Kani on the real crate"}],
        "assumptions": ["A-BIG (ibig implements Z exactly)", "rustc -Zunpretty=expanded is a faithful macro expansion",
                        "A-REAL for the E2 obligations on cuboid / iloc rescaling / right_loc / orientation (f64 read as reals)",
                        A_ROUND,
                        "E3 windows: quick = width in [0.5,4], |anchor| <= 4*width per axis; thorough adds width in [1e-6,1e6], |anchor| <= 1024*width on x "
                        "(complete over all bit patterns in the window; the window is a stated bound on inputs)",
                        "orientation is proved for the eight initial vertices only; its preservation by clip_by_plane's (cur,next,p_idx) triples is geometric and not decided",
                        "bit-precise monotonicity of iloc is not decided (Kani does not finish); monotonicity is proved for the real-valued rescaling only"],
        "trusted_base": ["vx (syn 2 dump)", "vlib/symex.py", "vlib/ring.py", "z3 4.8.12 / z3 5.1 / cvc5 1.0", "rustc nightly macro expansion",
                         "Kani 0.68 / CBMC 6.11 IEEE-754 model, CaDiCaL / kissat"],
        "extra_cov": dict(extra, traces_validated_against_impl=n),
        "explanation": "Unit 1: in_sphere_test_exact (macro-expanded) = sign of the 24-term Leibniz determinant, no overflow, plus the code-independent meaning lemma. "
                       "Unit 2: the eight initial duals are positively oriented. Unit 3: every queryable position (closed interval, mirrors and periodic images) "
                       "stays inside iloc's [1,2) rescaling: over the reals for all boxes (E2) and bit-precisely on the real crate for the stated windows (E3).",
    }
    meta["assumptions"] = list(meta["assumptions"]) + kani.scan_assumptions()
    return results, meta
