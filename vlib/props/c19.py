"""C19 — public geometry helpers satisfy their defining equations (proof over the reals, A-REAL)."""
from . import geomhelpers as g
from .. import smt, runner, extract

A_REAL = "A-REAL: f64 arithmetic is interpreted over the reals (the proof is about the formula, not about rounding)"


def run(tier, seed):
    obs, units = [], []
    for name, f in g.ALL:
        o, us = f("C19." + name)
        obs += o; units += us
    for o in obs:
        if not o.expect_sat and o.replay is None: o.replay = g.replay_helper
    smt.discharge_all(obs, tier, default_timeout=90 if tier == "quick" else 300)
    results = [runner.from_smt(o) for o in obs]
    n, bad = g.validate_translation(seed, 25 if tier == "quick" else 400)
    if bad:
        raise extract.Undecided("translation mismatch (symbolic term vs compiled function): %r" % bad[:2])
    meta = {
        "level": "proof",
        "functions": [{"fn": u.label, "slice_sha": u.sha} for u in units],
        "assumptions": [A_REAL, "glam 0.27 vector algebra as in vlib/symex.py's operation table (differentially tested in translation validation)",
                        "sqrt(x) is the non-negative real root; signum at exactly 0 is either sign"],
        "trusted_base": ["vx (syn 2 dump)", "vlib/symex.py", "z3 4.8.12 / z3 5.1 / cvc5 1.0"],
        "extra_cov": {"traces_validated_against_impl": n},
        "explanation": "One contract per exported helper; postconditions are the defining equations from the property statement. "
                       "Sphere::from_four_points is attempted only (degree-10 rational identities): see attempted_not_verified.",
    }
    return results, meta
