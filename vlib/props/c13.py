"""C13 — symmetric face-integral variant = non-symmetric minus faces already reported by a constructed lower-index neighbour."""
from . import rules, dims
from .. import smt, runner, extract


def run(tier, seed):
    obs, fns = rules.emit_obligations("C13", want=("sym",))
    o2, f2 = rules.constructed_iff_selected_obligations("C13"); obs += o2; fns += f2
    # both routes hand the same (normalised) box to the cells: a necessary part of 'integrator route == direct route'
    o3, f3 = dims.normalisation_obligations("C13"); obs += o3; fns += f3
    smt.discharge_all(obs, tier)
    results = [runner.from_smt(o) for o in obs]
    meta = {
        "level": "proof", "functions": fns,
        "assumptions": ["route equality ('bitwise the same tessellation via the integrator') is a 2-safety property of two iterator pipelines: not claimed; "
                        "what is checked is that both routes call from_convex_cell under the same construct-or-default condition with the same mask",
                        "the skip decision is per plane: `if integral.is_none()` makes it sticky for all tetrahedra of the plane (loop-level fact, not an obligation)"],
        "trusted_base": ["vx (syn 2 dump)", "vlib/symex.py", "z3 4.8.12 / z3 5.1 / cvc5 1.0"],
        "explanation": "The `continue` guard sliced from compute_face_integrals_sym holds iff the plane has an unshifted right neighbour with lower index that is active; the "
                       "two function bodies are token-identical apart from that statement; for an active cell kept_sym(plane) == should_construct_face(plane), i.e. the "
                       "symmetric integral list corresponds one-to-one with the stored face list.",
    }
    return results, meta
