"""C13 — symmetric face-integral variant = non-symmetric minus faces already reported by a constructed lower-index neighbour."""
from . import rules, dims
from .. import smt, runner, extract, symex
from ..e2 import *
from ..terms import And, Eq, TRUE
from ..symex import Struct

XF = ("geometry.rs",)


@isolated('stored_vs_public_face_integral')
def twin_obligations(prefix):
    """'area/centroid integrals evaluated through the integrator equal the values stored in the tessellation': the stored face values are
    accumulated by the private VoronoiFaceIntegral (voronoi_face.rs), the integrator route evaluates the public AreaCentroidIntegral
    (integrals.rs). Contract: on the same accumulator state and the same fed triangle, init / collect / finalize of the two types produce
    the same area and the same centroid (relational postcondition over the two real function bodies; A-REAL)."""
    obs, units = [], []
    area, cen, nrm = real("acc_area"), vec("acc_centroid"), vec("acc_normal")
    v0, v1, v2, g = vec("v0"), vec("v1"), vec("v2"), vec("gen")
    priv = Struct("VoronoiFaceIntegral", {"area": area, "centroid": cen, "normal": nrm})
    publ = Struct("AreaCentroidIntegral", {"area": area, "centroid": cen})
    same = lambda a, b: And(Eq(a.f["area"], b.f["area"]), veq(a.f["centroid"], b.f["centroid"]))
    res = {}
    for file, ty, acc in (("voronoi/voronoi_face.rs", "VoronoiFaceIntegral", priv), ("voronoi/integrals.rs", "AreaCentroidIntegral", publ)):
        uc = Unit(file, ty + "::collect@FaceIntegral"); ufz = Unit(file, ty + "::finalize@FaceIntegral")
        units += [uc, ufz]
        ctx = symex.Ctx()
        _, env, ctx, _ = uc.run({"self": acc, "v0": v0, "v1": v1, "v2": v2, "gen": g}, ctx, extra_files=XF)
        ctx3 = symex.Ctx()
        fin, _, ctx3, _ = ufz.run({"self": acc}, ctx3, extra_files=XF)
        res[ty] = (env.vars["self"], ctx, fin, ctx3)
    (pc, c1, pf, c3), (qc, d1, qf, d3) = res["VoronoiFaceIntegral"], res["AreaCentroidIntegral"]
    lab = "VoronoiFaceIntegral vs AreaCentroidIntegral (voronoi_face.rs / integrals.rs)"
    obs.append(Obligation(prefix + ".stored_vs_public.collect_accumulates_the_same_area_and_centroid", c1.assume + c1.ok + d1.assume + d1.ok, same(pc, qc), lab))
    obs.append(Obligation(prefix + ".stored_vs_public.finalize_yields_the_same_area_and_centroid", c3.assume + c3.ok + d3.assume + d3.ok, same(pf, qf), lab,
                          note="for EVERY accumulated area, also zero and (rounding of a sliver face) slightly negative ones"))
    obs.append(Obligation(prefix + ".stored_vs_public.requires_satisfiable", c1.assume + c1.ok + d1.assume + d1.ok + c3.assume + c3.ok + d3.assume + d3.ok, TRUE, lab, expect_sat=True))
    return obs, units



def route_probe(seed, n_sets):
    """'Converting a VoronoiIntegrator into a Voronoi gives bitwise the same tessellation as building it directly with the same arguments':
    both routes through the public API on small inputs (1D/2D/3D, masks, periodic, garbage in the unused coordinates of generators, anchor
    and width), compared field by field, bit for bit (JSON round-trips f64 exactly)."""
    import random
    from ..runner import replay_requests
    rng = random.Random(seed)
    reqs = []
    for t in range(n_sets):
        d = 1 + t % 3
        n = rng.choice([1, 2, 6, 14])
        w = [rng.choice([1.0, 2.5]), rng.choice([1.0, 0.6]), rng.choice([1.0, 1.7])]
        an = [rng.choice([0.0, -3.0]), rng.choice([0.0, 4.0]), 0.0]
        garb = lambda: rng.choice([0.0, 0.37, -5.5])
        gens = [[an[0] + rng.random() * w[0], an[1] + rng.random() * w[1] if d >= 2 else garb(), an[2] + rng.random() * w[2] if d == 3 else garb()] for _ in range(n)]
        if d < 3: an[2] = garb(); w[2] = rng.choice([1.0, 3.0])
        if d < 2: an[1] = garb(); w[1] = rng.choice([1.0, 0.25])
        rq = {"op": "build", "gens": gens, "anchor": an, "width": w, "dim": d, "periodic": bool(rng.random() < 0.5)}
        if rng.random() < 0.5:
            m = [rng.random() < 0.6 for _ in range(n)]
            if not any(m): m[0] = True
            rq["mask"] = m
        reqs.append(rq); reqs.append(dict(rq, route="integrator"))
    ans = replay_requests(reqs, timeout=900)
    for k in range(0, len(reqs), 2):
        a, b = ans[k], ans[k + 1]
        if a.get("panic") and b.get("panic"): continue
        if a != b:
            what = "the two routes differ"
            for key in ("cells", "faces", "connections"):
                if a.get(key) != b.get(key):
                    xs, ys = a.get(key) or [], b.get(key) or []
                    i = next((i for i, (x, y) in enumerate(zip(xs, ys)) if x != y), min(len(xs), len(ys)))
                    what = "%s differ at index %d: direct %r vs integrator %r" % (key, i, xs[i] if i < len(xs) else None, ys[i] if i < len(ys) else None)
                    break
            return len(reqs) // 2, {"request": reqs[k], "what": what[:1500]}
    return len(reqs) // 2, None


def run(tier, seed):
    obs, fns = rules.emit_obligations("C13", want=("sym",))
    o2, f2 = rules.constructed_iff_selected_obligations("C13"); obs += o2; fns += f2
    # both routes hand the same (normalised) box to the cells: a necessary part of 'integrator route == direct route'
    o3, f3 = dims.normalisation_obligations("C13"); obs += o3; fns += f3
    o4, u4 = twin_obligations("C13"); obs += o4; fns += [{"fn": u.label, "slice_sha": u.sha} for u in u4]
    smt.discharge_all(obs, tier)
    results = [runner.from_smt(o) for o in obs]
    n, bad = route_probe(seed, 30 if tier == "quick" else 300)
    results.append(runner.Result("C13.bounded.real_integrator_route_equals_direct_route_bitwise", "R", "discharged" if bad is None else "refuted", 0.0, "replay",
                                 "" if bad is None else repr(bad)[:3000], "Voronoi::build / build_partial vs Voronoi::from(&VoronoiIntegrator::build(..)) (public API, real crate)",
                                 bounded="%d random inputs (1..14 generators; 1D/2D/3D; masks; periodic; garbage in unused coordinates), seed %d" % (n, seed),
                                 counterexample=bad, replay={"reproduced": bad is not None, "mismatch": bad}))
    meta = {
        "level": "proof", "functions": fns,
        "assumptions": ["route equality ('bitwise the same tessellation via the integrator') is a 2-safety property of two iterator pipelines: NOT proved; "
                        "proved is that both routes call from_convex_cell under the same construct-or-default condition with the same mask and hand the same normalised box to the cells; "
                        "the equality itself is covered by a BOUNDED stand-in on the real crate only",
                        "the skip decision is per plane: `if integral.is_none()` makes it sticky for all tetrahedra of the plane (loop-level fact, not an obligation)"],
        "trusted_base": ["vx (syn 2 dump)", "vlib/symex.py", "z3 4.8.12 / z3 5.1 / cvc5 1.0"],
        "explanation": "The `continue` guard sliced from compute_face_integrals_sym holds iff the plane has an unshifted right neighbour with lower index that is active; the "
                       "two function bodies are token-identical apart from that statement; for an active cell kept_sym(plane) == should_construct_face(plane), i.e. the "
                       "symmetric integral list corresponds one-to-one with the stored face list.",
    }
    return results, meta
