"""Bounded stand-ins on the real crate (public API) for the geometric halves of C03 / C04 that no contract in reach decides:
closed-surface identities per cell, and reciprocity of a face seen from its two sides. Labelled bounded, never counted as proved."""
import random, itertools
from ..runner import replay_requests, Result


def _random_sets(rng, n_sets, on_wall, dims=(1, 2, 3)):
    reqs = []
    for t in range(n_sets):
        d = rng.choice(dims); n = rng.choice([1, 2, 3, 6])
        an = [rng.choice([0.0, 1.0, -1.0, -3.5]) for _ in range(3)]; w = [rng.choice([1.0, 2.0, 0.5]) for _ in range(3)]
        gens = []
        for i in range(n):
            g = [an[a] + (0.05 + 0.9 * rng.random()) * w[a] for a in range(3)]
            if on_wall:
                for a in range(d):
                    r = rng.random()
                    if r < 0.25: g[a] = an[a]
                    elif r < 0.5: g[a] = an[a] + w[a]
            for a in range(d, 3): g[a] = 0.0
            gens.append(g)
        if on_wall and not any(any(g[a] in (an[a], an[a] + w[a]) for a in range(d)) for g in gens): gens[0][0] = an[0]
        if len({tuple(g) for g in gens}) < n: continue
        rq = {"op": "build", "gens": gens, "anchor": an, "width": w, "dim": d, "periodic": False}
        if t % 3 == 2 and n > 1:
            m = [rng.random() < 0.6 for _ in range(n)]
            if not any(m): m[0] = True
            rq["mask"] = m
        reqs.append(rq)
    return reqs


def closure_probe(seed, n_sets, on_wall):
    """Per constructed cell: sum(area * outward normal) = 0, (1/d) sum(area * n.(centroid - generator)) = volume, areas >= 0, unit normals."""
    rng = random.Random(seed + (1000 if on_wall else 0))
    reqs = _random_sets(rng, n_sets, on_wall)
    cells = 0
    for rq, a in zip(reqs, replay_requests(reqs, timeout=900)):
        if "cells" not in a: return cells, {"request": rq, "real": a, "what": "construction panics"}
        d, w = rq["dim"], rq["width"]; sc = max(w[:d])
        for c in range(len(rq["gens"])):
            if "mask" in rq and not rq["mask"][c]: continue       # only constructed cells are closed surfaces
            cells += 1
            fs = [a["faces"][i] for i in a["cells"][c]["face_indices"]]      # the cell's faces as listed by the connectivity structure
            tot, div = [0.0, 0.0, 0.0], 0.0
            for f in fs:
                s = 1 if f["left"] == c else -1
                for i in range(3): tot[i] += s * f["area"] * f["normal"][i]
                div += s * f["area"] * sum(f["normal"][i] * (f["centroid"][i] - rq["gens"][c][i]) for i in range(3))
            vol = a["cells"][c]["volume"]
            why = None
            if any(f["area"] < 0 for f in fs): why = "negative face area"
            elif max(abs(t) for t in tot) > 1e-9 * sc ** (d - 1): why = "area-weighted outward normals do not sum to zero: %r" % [round(t, 9) for t in tot]
            elif abs(div / d - vol) > 1e-9 * sc ** d: why = "divergence identity fails: %r vs volume %r" % (div / d, vol)
            if why:
                return cells, {"request": rq, "cell": c, "generator": rq["gens"][c], "faces_of_the_cell": [{k: f[k] for k in ("left", "right", "area", "normal")} for f in fs], "what": why}
    return cells, None


def reciprocity_probe(seed, n_sets):
    """A face between cells i and j seen from both sides: the tessellation built with only i selected and the one with only j selected must
    report the same area and centroid and opposite normals for the face i|j (shift negated for periodic faces)."""
    rng = random.Random(seed)
    reqs, meta = [], []
    for t in range(n_sets):
        d = rng.choice([1, 2, 3]); n = rng.choice([2, 3, 5])
        w = [rng.choice([1.0, 1.5]), rng.choice([1.0, 0.7]), rng.choice([1.0, 2.0])]
        gens = [[rng.random() * w[0], rng.random() * w[1] if d >= 2 else 0.0, rng.random() * w[2] if d == 3 else 0.0] for _ in range(n)]
        per = bool(t % 2)
        for i in range(n):
            reqs.append({"op": "build", "gens": gens, "anchor": [0, 0, 0], "width": w, "dim": d, "periodic": per, "mask": [k == i for k in range(n)]})
        meta.append((len(reqs) - n, n, d, w))
    ans = replay_requests(reqs, timeout=900)
    pairs = 0
    key = lambda s: None if s is None else tuple(round(x, 9) for x in s)
    for start, n, d, w in meta:
        sc = max(w[:d])
        side = {}
        for i in range(n):
            a = ans[start + i]
            if "faces" not in a: return pairs, {"request": reqs[start + i], "real": a, "what": "construction panics"}
            for f in a["faces"]:
                if f["left"] == i and f["right"] is not None: side[(i, f["right"], key(f["shift"]))] = f
        for (i, j, s), f in side.items():
            if f["area"] <= 1e-9 * sc ** (d - 1): continue        # negligible faces may legitimately be seen from one side only
            ns = None if s is None else tuple(-x for x in s)
            g = side.get((j, i, ns))
            pairs += 1
            if g is None:
                return pairs, {"request": reqs[start + i], "face": {k: f[k] for k in ("left", "right", "shift", "area")}, "what": "cell %d has no face towards %d with the negated shift" % (j, i)}
            cg = [g["centroid"][k] + (s[k] if s is not None else 0.0) for k in range(3)]
            if abs(f["area"] - g["area"]) > 1e-9 * sc ** (d - 1) or max(abs(f["centroid"][k] - cg[k]) for k in range(3)) > 1e-7 * sc \
               or max(abs(f["normal"][k] + g["normal"][k]) for k in range(3)) > 1e-9:
                return pairs, {"request": reqs[start + i], "from_i": {k: f[k] for k in ("left", "right", "shift", "area", "centroid", "normal")},
                               "from_j": {k: g[k] for k in ("left", "right", "shift", "area", "centroid", "normal")}, "what": "the two sides of a face disagree"}
    return pairs, None


def result(name, unit, bound_text, n, bad):
    return Result(name, "R", "discharged" if bad is None else "refuted", 0.0, "replay", "" if bad is None else repr(bad)[:3000], unit,
                  bounded=bound_text % n, counterexample=bad, replay={"reproduced": bad is not None, "mismatch": bad})


def lattice_probe(amps, seeds=(0, 1, 2)):
    """C05: exact and near-exact lattices (every generator of an m^d lattice displaced by a uniform perturbation of the given amplitude), periodic
    and reflective, 2D and 3D: construction must not panic and the cell measures must sum to the box measure (ties resolved consistently)."""
    reqs, meta = [], []
    for amp in amps:
        for seed in seeds:
            for per in (True, False):
                for m, d in ((4, 3), (5, 2), (3, 3)):
                    rng = random.Random(seed * 1000 + int(amp * 1e17))
                    gens = [[(i + 0.5) / m + rng.uniform(-amp, amp), ((j + 0.5) / m + rng.uniform(-amp, amp)) if d >= 2 else 0.0,
                             ((k + 0.5) / m + rng.uniform(-amp, amp)) if d == 3 else 0.0]
                            for i in range(m) for j in range(m if d >= 2 else 1) for k in range(m if d == 3 else 1)]
                    reqs.append({"op": "build", "gens": gens, "anchor": [0, 0, 0], "width": [1, 1, 1], "dim": d, "periodic": per})
                    meta.append({"amplitude": amp, "seed": seed, "periodic": per, "lattice": "%d^%d" % (m, d)})
    for mt, rq, a in zip(meta, reqs, replay_requests(reqs, timeout=1800)):
        if "cells" not in a:
            return len(reqs), {"case": mt, "real": a, "request": {k: v for k, v in rq.items() if k != "gens"}, "first_generators": rq["gens"][:3], "what": "construction panics on a (near-)exact lattice"}
        vol = sum(c["volume"] for c in a["cells"])
        if abs(vol - 1.0) > 1e-9:
            return len(reqs), {"case": mt, "sum_of_cell_measures": vol, "what": "cells of a (near-)exact lattice do not tile the box"}
    return len(reqs), None
