"""E2 contracts (over the reals) on the float filter HalfSpace::{new, clip}: what the filter computes and what its error bound must
dominate. Complements the bit-precise Kani contracts (finite/positive bound, trichotomy, never NaN) of e3sets.HALF_SPACE."""
from .. import terms as tm, symex, extract
from ..terms import Var, Const, And, Or, Not, Eq, Lt, Le, Ge, Gt, Ite, Implies, TRUE, FALSE
from ..symex import Vec, Struct, Opt
from ..e2 import *

HS = "voronoi/half_space.rs"
XF = ("geometry.rs", "voronoi/generator.rs")
U3 = tm.Fraction(3, 2 ** 52)     # gamma_3 = 3u/(1-3u) < 3 * 2^-52 with u = 2^-53 (Higham, Accuracy and Stability, Lemma 3.1 / (3.5))


@isolated('half_space_new_real')
def new_obligations(prefix):
    u = Unit(HS, "HalfSpace::new")
    n, p = vec("hn"), vec("hp")
    ri = option("hr", Var("hr", "Int", "usize")); sh = option("hs", vec("hsv"))
    r, env, ctx, it = u.run({"n": n, "p": p, "right_idx": ri, "shift": sh}, extra_files=XF)
    obs = []
    P = ctx.assume + ctx.ok
    guard(obs, prefix + ".half_space_new_real", u, [], ctx)
    E = lambda name, goal, note="": obs.append(Obligation(prefix + ".half_space_new_real." + name, P, goal, u.label, note=note, replay=replay_filter))
    E("plane_and_offset_are_n_p_and_n_dot_p", And(veq(r.f["plane"].f["n"], n), veq(r.f["plane"].f["p"], p), Eq(r.f["d"], dot(n, p))))
    absdot = tm.Sum([tm.Abs(a * b) for a, b in zip(n.c, p.c)])
    E("error_bound_dominates_the_rounding_error_of_the_plane_offset", Ge(r.f["errb"], Const(U3, "Real") * absdot),
      note="|fl(n.p) - n.p| <= gamma_3 * sum |n_i p_i| (standard dot-product error bound): a filter whose bound is below the error of the very offset "
           "it compares with would return a definite sign on noise. Code-independent necessary condition, not the code's formula.")
    E("error_bound_positive", Gt(r.f["errb"], R0))
    same_opt = lambda a, b, eqf: And(Eq(a.some, b.some), Implies(a.some, eqf(a.val, b.val)))
    E("labels_passed_through", And(same_opt(r.f["right_idx"], ri, Eq), same_opt(r.f["shift"], sh, veq)))
    return obs, [u]


@isolated('half_space_clip_real')
def clip_obligations(prefix):
    u = Unit(HS, "HalfSpace::clip")
    n, p, v = vec("cn"), vec("cp"), vec("cv")
    d, errb = real("cd"), real("cerrb")
    hs = Struct("HalfSpace", {"plane": Struct("Plane", {"n": n, "p": p}), "d": d, "errb": errb, "right_idx": option("cr", Var("cr", "Int")), "shift": option("cs", vec("csv"))})
    r, env, ctx, it = u.run({"self": hs, "vertex": v}, extra_files=XF)
    P = [Gt(errb, R0)] + ctx.assume + ctx.ok
    obs = []
    guard(obs, prefix + ".half_space_clip_real", u, [Gt(errb, R0)], ctx)
    s = dot(n, v) - d
    one = Const(1, "Real")
    E = lambda name, goal: obs.append(Obligation(prefix + ".half_space_clip_real." + name, P, goal, u.label, replay=replay_filter))
    E("zero_iff_signed_distance_within_the_error_bound", Eq(Eq(r, R0), Lt(tm.Abs(s), errb)))
    E("otherwise_the_sign_of_n_dot_v_minus_d", And(Implies(Ge(s, errb), Eq(r, one)), Implies(Le(s, -errb), Eq(r, -one))))
    return obs, [u]


def replay_filter(ob):
    """The float filter on the real crate (HalfSpace::new(n, p).clip(v)) against exact rational arithmetic: for points exactly ON the plane
    (n, p, v dyadic rationals with n.v = n.p exactly, large cancelling terms) the filter must answer 0; a definite sign is a wrong answer."""
    import random
    from fractions import Fraction
    from ..runner import replay_requests
    rng = random.Random(20260930)
    reqs, exact = [], []
    cr = lambda a, b: [a[1] * b[2] - a[2] * b[1], a[2] * b[0] - a[0] * b[2], a[0] * b[1] - a[1] * b[0]]
    for k in range(400):
        big = 10.0 ** rng.randrange(0, 9)
        n = [rng.uniform(-1, 1) for _ in range(3)]
        nn = sum(x * x for x in n) ** 0.5; n = [x / nn for x in n]
        if k % 2 == 0:
            # plane through a far point whose offset n.p cancels (p almost orthogonal to n): co-spherical sets around the origin give these
            p = [x * big for x in cr(n, [rng.uniform(-1, 1) for _ in range(3)])]
        else:
            p = [rng.uniform(-1, 1) * big for _ in range(3)]
        t = cr(n, [rng.uniform(-1, 1) for _ in range(3)])          # in-plane displacement (up to rounding)
        v = [p[i] + t[i] * big for i in range(3)]
        s = sum(Fraction(n[i]) * (Fraction(v[i]) - Fraction(p[i])) for i in range(3))   # exact signed distance of the float inputs
        reqs.append({"op": "halfspace_clip", "n": n, "p": p, "v": v}); exact.append(s)
    bad = []
    for rq, s, a in zip(reqs, exact, replay_requests(reqs, timeout=120)):
        r = a.get("r")
        if s == 0 and r != 0.0: bad.append({"request": rq, "exact_signed_distance": 0, "filter_answer": r})
        elif s != 0 and r is not None and r != 0.0 and (r > 0) != (s > 0): bad.append({"request": rq, "exact_signed_distance": float(s), "filter_answer": r})
    return {"reproduced": bool(bad), "runs": bad[:3], "searched": len(reqs),
            "what": "HalfSpace::new(n,p).clip(v) returns a definite (or the wrong) sign for a point that exact arithmetic puts on (or on the other side of) the plane"}
