"""E2 contract on the exact-path wiring of ConvexCell::clip_by_plane (C05, C10, C03 'globally consistent clip decisions'):
the body of the vertex loop, sliced from the AST, with its callees replaced by recording contracts.

Postconditions (from the property statements): the float filter is asked first; the exact predicate is consulted iff the filter
answers 0, with the five grid points iloc(own generator), iloc(right_loc of the vertex' three dual planes, in dual order),
iloc(right_loc of the new plane); the vertex is removed iff the deciding sign is negative, otherwise kept."""
from .. import terms as tm, symex, extract
from ..terms import Var, Const, And, Or, Not, Eq, Lt, Le, Ge, Gt, Ite, Implies, TRUE, FALSE
from ..symex import Vec, Struct, Opt, SymArr, Arr
from ..e2 import *
from . import faces

CC = "voronoi/convex_cell.rs"


@isolated('clipwire')
def obligations(prefix):
    u = Unit(CC, "ConvexCell::clip_by_plane")
    loops = extract.find_nodes(u.fn["body"], lambda n: n.get("k") == "while")
    if len(loops) != 1: raise extract.Undecided("lost anchor: the vertex loop of clip_by_plane")
    lp = loops[0]
    ctext = extract.text_of(u.tree, lp["c"]).replace(" ", "")
    if ctext != "i<num_v": raise extract.Undecided("lost anchor: `while i < num_v` (found %s)" % ctext)
    stmts = lp["body"]["stmts"]
    planes = faces.sym_cell("cell")[1]
    made = []
    def vertex(i):
        k = "v%d" % len(made); made.append(i)
        return Struct("Vertex", {"loc": vec(k + "_loc"), "dual": Arr([Var("%s_dual%d" % (k, a), "Int", "usize") for a in range(3)]), "radius2": real(k + "_r2")})
    verts = SymArr(vertex)
    cell = Struct("ConvexCell", {"idx": Var("cell_idx", "Int", "usize"), "loc": vec("cell_loc"), "clipping_planes": planes, "vertices": verts})
    p = faces._halfspace("newp")
    i, num_v, num_r = Var("i", "Int", "usize"), Var("num_v", "Int", "usize"), Var("num_r", "Int", "usize")
    gens = Struct("Generators", {})
    boundary = Struct("SimulationBoundary", {})
    log = {"clip": [], "iloc": [], "right_loc": [], "exact": [], "swap": []}
    filt = real("filter_answer")
    exact = real("exact_answer")
    def c_clip(interp, env, node, args):
        log["clip"].append((env.pc, args)); return filt
    def c_iloc(interp, env, node, args):
        k = len(log["iloc"])
        r = Arr([Var("grid%d_%d" % (k, a), "Int", "i64") for a in range(3)])
        log["iloc"].append((env.pc, args, r)); return r
    def c_right_loc(interp, env, node, args):
        k = len(log["right_loc"])
        r = vec("rloc%d" % k)
        log["right_loc"].append((env.pc, args, r)); return r
    def c_exact(interp, env, node, args):
        log["exact"].append((env.pc, args)); return exact
    def c_swap(interp, env, node, args):
        log["swap"].append((env.pc, args)); return symex.UNIT
    ctx = symex.Ctx(); ctx.resolver = u.resolver(())
    ctx.contracts.update({"HalfSpace::clip": c_clip, "SimulationBoundary::iloc": c_iloc, "HalfSpace::right_loc": c_right_loc,
                          "in_sphere_test_exact": c_exact, "[]::swap": c_swap})
    # loop-carried locals declared in front of the loop (besides the three counters) enter the body with an arbitrary value of their type:
    # what the body does must be right whatever earlier iterations left in them
    start = {"self": cell, "p": p, "generators": gens, "simulation_boundary": boundary, "i": i, "num_v": num_v, "num_r": num_r}
    for s_ in u.fn["body"]["stmts"]:
        if s_["sp"][1] > lp["sp"][0] or s_.get("k") != "let": continue
        pat = s_["pat"]; ty = None
        if pat.get("k") == "ptype": ty, pat = pat["ty"], pat["pat"]
        if pat.get("k") == "pident" and pat["name"] not in start:
            start[pat["name"]] = symex.unknown_of_type(ctx, ty or "?", pat["name"])
            if pat.get("mut"): ctx.mutable.add(pat["name"])
    it = symex.Interp(ctx, {}); it.tolerant = True
    env = symex.Env(ctx, start, TRUE, "ConvexCell")
    ctx.mutable.update({"i", "num_v", "num_r", "self"})
    v = it.exec_block(env, {"k": "block", "stmts": stmts, "sp": [stmts[0]["sp"][0], stmts[-1]["sp"][1]]})
    lab = u.label + " / vertex-loop body"
    # the filter's contract (E3: HalfSpace::clip) and the predicate's (C10): answers are -1, 0 or +1
    tri = lambda x: Or(Eq(x, Const(-1, "Real")), Eq(x, R0), Eq(x, Const(1, "Real")))
    pre = [tri(filt), tri(exact), Le(Const(0, "Int"), i), Lt(i, num_v), Le(num_v, Const(2 ** 63 - 1, "Int")), Le(Const(0, "Int"), num_r), Lt(num_r, Const(2 ** 62, "Int"))]
    P = pre + ctx.assume + ctx.ok
    obs = [Obligation(prefix + ".clipwire.requires_satisfiable", P, TRUE, lab, expect_sat=True)]
    if ctx.obls:
        obs.append(Obligation(prefix + ".clipwire.no_overflow_or_underflow_of_the_counters", P, And(*[Implies(o.pc, o.cond) for o in ctx.obls]), lab))
    # tolerant evaluation: if statements were skipped, what the body does is only partly known - a refutation then needs a replay on the real
    # code (exact and near-exact lattices, where ties are actually resolved)
    skipped = bool(ctx.skipped)
    def replay_ties(ob):
        from .surfaces import lattice_probe
        n_, bad_ = lattice_probe((0.0, 1e-11, 5e-11), seeds=(0, 1, 2))
        return {"reproduced": bad_ is not None, "searched": n_, "mismatch": bad_}
    def E(name, goal):
        o_ = Obligation(prefix + ".clipwire." + name, P, goal, lab, replay=replay_ties)
        o_.havoc = skipped
        obs.append(o_)
    ok_shape = (len(log["clip"]) == 1 and len(log["exact"]) == 1 and len(log["iloc"]) == 5 and len(log["right_loc"]) == 4 and len(log["swap"]) == 1)
    E("one_filter_call_one_exact_call_five_grid_points", Const(bool(ok_shape)))
    if not ok_shape:
        return obs, [{"fn": lab, "slice_sha": extract.sha(extract.text_of(u.tree, lp["body"]))}]
    vi = verts.memo[i]
    (pc_f, a_f), = log["clip"]
    E("filter_asked_first_on_the_vertex_position_with_the_new_plane", And(pc_f, Const(a_f[0] is p), veq(a_f[1], vi.f["loc"])))
    (pc_e, a_e), = log["exact"]
    E("exact_predicate_consulted_iff_filter_answers_zero", Eq(pc_e, Eq(filt, R0)))
    # the five arguments are the five iloc results in call order
    same_arr = lambda x, y: all(xe is ye for xe, ye in zip(x.e, y.e))
    order_ok = all(same_arr(a_e[k], log["iloc"][k][2]) for k in range(5))
    E("predicate_arguments_are_the_five_grid_points_in_order", Const(bool(order_ok)))
    # what each grid point is
    il = log["iloc"]; rl = log["right_loc"]
    E("grid_point_a_is_own_generator", veq(il[0][1][1], cell.f["loc"]))
    for k in range(3):
        # iloc #k+1 is applied to right_loc #k, which is called on clipping_planes[dual[k]] with the cell's own index
        hs_k = planes.memo.get(vi.f["dual"].e[k])
        good = hs_k is not None and rl[k][1][0] is hs_k and all(x is y for x, y in zip(il[k + 1][1][1].c, rl[k][2].c))
        E("grid_point_%s_is_right_loc_of_dual_plane_%d" % ("bcd"[k], k), And(Const(bool(good)), Eq(rl[k][1][1], cell.f["idx"])))
    good_v = rl[3][1][0] is p and all(x is y for x, y in zip(il[4][1][1].c, rl[3][2].c))
    E("grid_point_v_is_right_loc_of_the_new_plane", And(Const(bool(good_v)), Eq(rl[3][1][1], cell.f["idx"])))
    # decision
    deciding = Ite(Eq(filt, R0), exact, filt)
    removed = Lt(deciding, R0)
    (pc_s, a_s), = log["swap"]
    nv2, nr2, i2 = env.vars["num_v"], env.vars["num_r"], env.vars["i"]
    E("vertex_removed_iff_deciding_sign_negative", And(Eq(pc_s, removed), Eq(nr2, Ite(removed, num_r + Const(1, "Int"), num_r)),
                                                       Eq(nv2, Ite(removed, num_v - Const(1, "Int"), num_v))))
    E("removed_vertex_swapped_behind_the_kept_range_kept_vertex_advances", And(Implies(removed, And(Eq(a_s[1], i), Eq(a_s[2], num_v - Const(1, "Int")), Eq(i2, i))),
                                                                            Implies(Not(removed), Eq(i2, i + Const(1, "Int")))))
    E("on_sphere_tie_keeps_the_vertex", Implies(And(Eq(filt, R0), Eq(exact, R0)), Not(pc_s)))
    return obs, [{"fn": lab, "slice_sha": extract.sha(extract.text_of(u.tree, lp["body"]))}]
