"""C03 — faces are reciprocal: stored once, listed by both sides; periodic faces in reciprocal pairs (storage/label half)."""
from . import rules, faces, grid, surfaces
from .. import smt, runner, extract


def run(tier, seed):
    obs, fns = rules.emit_obligations("C03", want=("reciprocal",))
    for o in obs:
        if ".emit." in o.name and not o.expect_sat: o.replay = rules.replay_pair
    o2, f2 = rules.shift_mapping_obligations("C03"); obs += o2; fns += f2
    o3, m3 = faces.bisector_obligations("C03")
    obs += [x for x in o3 if "labels_right_is_neighbour" in x.name or "neighbour_position" in x.name or "every_candidate" in x.name or "loop_runs_over" in x.name or x.expect_sat]; fns.append(m3)
    o4, us = faces.face_init_obligations("C03")
    obs += [x for x in o4 if "face_labels" in x.name]; fns += [{"fn": u_.label, "slice_sha": u_.sha} for u_ in us[1:2]]
    # the position the exact predicate sees for a periodic neighbour is generator + shift too (globally consistent clip decisions)
    o5, u5 = grid.right_loc_obligations("C03")
    obs += [x for x in o5 if "neighbour_is_generator_plus_shift" in x.name or x.expect_sat]; fns += [{"fn": u.label, "slice_sha": u.sha} for u in u5]
    smt.discharge_all(obs, tier)
    results = [runner.from_smt(o) for o in obs]
    # the geometric half (same area and centroid from both sides, opposite normals) is NOT decided by any contract in reach: bounded stand-in
    npairs, rb = surfaces.reciprocity_probe(seed, 40 if tier == "quick" else 400)
    results.append(surfaces.result("C03.bounded.real_faces_agree_from_both_sides", "Voronoi::build_partial with cell i resp. cell j selected (public API, real crate)",
                                   "%d faces of random 1D/2D/3D tessellations (2..5 generators, periodic and not) compared between the two single-cell builds", npairs, rb))
    meta = {
        "level": "proof", "functions": fns,
        "assumptions": ["A-REAL for the exact-zero tests of the shift mapping (== 0. is exact in f64 as well)",
                        "the two cells of an unshifted face see exactly negated normals (IEEE negation symmetry of dx/dist) - used for 'valid dimensionality agrees on both sides'",
                        "geometric half (equal area / centroid / opposite normal from both sides, 'cell j has the face at all') needs the two float constructions to agree = C01: NOT proved, "
                        "covered by a BOUNDED stand-in on the real crate only",
                        "Voronoi::finalize linking faces to left and unshifted right: proved under C12 (Verus), not repeated here"],
        "trusted_base": ["vx (syn 2 dump)", "vlib/symex.py", "z3 4.8.12 / z3 5.1 / cvc5 1.0"],
        "explanation": "should_construct_face sliced from from_convex_cell: for every pair i != j of constructed cells an unshifted face is emitted by exactly one side "
                       "(the lower index), shifted faces by each side, boundary faces always; labels (left, right, shift) are passed through unchanged from the "
                       "neighbour iterator to the stored face; the iterator reports None iff the query shift is zero and the negated shift otherwise.",
    }
    return results, meta
