"""C17 — neighbour candidates are enumerated completely and in order of distance: the mechanisms of the wrapping best-first
traversal (rtree_nn.rs), each as an E2 contract on the real code, + a bounded stand-in for the traversal itself on the real crate."""
import random
from .. import terms as tm, symex, extract, smt, runner
from ..terms import Var, Const, And, Or, Not, Eq, Lt, Le, Ge, Gt, Ite, Implies, TRUE, FALSE
from ..symex import Vec, Struct, Opt, SymArr, Arr, Variant, Tup
from ..e2 import *
from ..runner import Result
from . import images, rules

RT = "rtree_nn.rs"
XF = ("voronoi/generator.rs",)


def arr3(name): return Arr([real("%s_%d" % (name, i)) for i in range(3)])


@isolated('distance')
def distance_obligations(prefix):
    obs, fns = [], []
    # (1) point distance of a shifted query: |point + shift - loc|^2
    ug = Unit(RT, "Generator::wrapping_distance_2@WrappingPointDistance")
    g = Struct("Generator", {"loc": vec("g_loc"), "id": Var("g_id", "Int", "usize")})
    pt, sh = arr3("point"), arr3("shift")
    r, env, ctx, it = ug.run({"self": g, "point": pt, "shift": sh}, extra_files=XF)
    d = [pt.e[i] + sh.e[i] - g.f["loc"].c[i] for i in range(3)]
    obs.append(Obligation(prefix + ".distance.generator_distance_is_squared_distance_from_the_shifted_query_point", ctx.assume + ctx.ok, Eq(r, tm.Sum([x * x for x in d])), ug.label,
                          note="equivalently: the distance from the query point to the periodic image loc - shift of the generator"))
    fns.append({"fn": ug.label, "slice_sha": ug.sha})
    # (2) envelope distance is a lower bound for every generator inside the envelope (so best-first order is sound)
    ue = Unit(RT, "AABB::wrapping_distance_2@WrappingEnvelope")
    lo, hi = arr3("lower"), arr3("upper")
    ctx2 = symex.Ctx()
    ctx2.contracts["AABB::lower"] = lambda interp, env, node, args: lo
    ctx2.contracts["AABB::upper"] = lambda interp, env, node, args: hi
    box = Struct("AABB", {})
    re_, env2, ctx2, _ = ue.run({"self": box, "point": pt, "shift": sh}, ctx2, extra_files=XF)
    inside = [And(Le(lo.e[i], g.f["loc"].c[i]), Le(g.f["loc"].c[i], hi.e[i])) for i in range(3)]
    P = [Le(lo.e[i], hi.e[i]) for i in range(3)] + inside + ctx.assume + ctx.ok + ctx2.assume + ctx2.ok
    obs.append(Obligation(prefix + ".distance.requires_satisfiable", P, TRUE, ue.label, expect_sat=True))
    obs.append(Obligation(prefix + ".distance.envelope_distance_is_a_lower_bound_for_every_generator_inside_the_envelope", P, And(Ge(re_, R0), Le(re_, r)), ue.label, timeout=120,
                          note="same shift on both sides: a node is expanded before any generator below it could be reported"))
    obs.append(Obligation(prefix + ".distance.envelope_of_a_single_point_has_the_point_distance", [Eq(lo.e[i], g.f["loc"].c[i]) for i in range(3)] + [Eq(hi.e[i], g.f["loc"].c[i]) for i in range(3)] + ctx.assume + ctx2.assume,
                          Eq(re_, r), ue.label))
    fns.append({"fn": ue.label, "slice_sha": ue.sha})
    return obs, fns


@isolated('heap')
def heap_obligations(prefix):
    """The comparator makes std's max-heap a min-heap on distance; extend_heap keys every child with its own distance under the SAME shift;
    next() expands a parent with the parent's shift and returns a leaf with the distance and shift it was pushed with."""
    obs, fns = [], []
    uc = Unit(RT, "RTreeNodeDistanceWrapper::cmp@Ord")
    a = Struct("RTreeNodeDistanceWrapper", {"distance": real("da"), "shift": arr3("sa"), "node": Struct("N", {})})
    b = Struct("RTreeNodeDistanceWrapper", {"distance": real("db"), "shift": arr3("sb"), "node": Struct("N", {})})
    r, env, ctx, it = uc.run({"self": a, "other": b})
    if not (isinstance(r, tuple) and r[0] == "sign"): raise extract.Undecided("cmp does not return an Ordering")
    sc = symex.Interp.sign_cond
    obs.append(Obligation(prefix + ".heap.comparator_is_reversed_distance_order_so_the_max_heap_pops_the_nearest", ctx.assume + ctx.ok,
                          And(Eq(sc(r[1], "Greater"), Lt(a.f["distance"], b.f["distance"])), Eq(sc(r[1], "Equal"), Eq(a.f["distance"], b.f["distance"]))), uc.label,
                          note="std::collections::BinaryHeap::pop returns a greatest element (assumed): here one of least distance"))
    fns.append({"fn": uc.label, "slice_sha": uc.sha})
    # extend_heap's closure, once per child variant
    ux = Unit(RT, "RTreeWrappingNearestNeighbourIter::extend_heap")
    cls = extract.find_nodes(ux.fn["body"], lambda n: n.get("k") == "closure")
    if len(cls) != 1: raise extract.Undecided("lost anchor: the map closure of extend_heap")
    qp, sh = arr3("query"), arr3("shift")
    seen = {}
    def env_dist(interp, env, node, args): seen["env"] = args; return real("d_env")
    def pt_dist(interp, env, node, args): seen["pt"] = args; return real("d_pt")
    for variant, key, dn in (("Parent", "env", "d_env"), ("Leaf", "pt", "d_pt")):
        ctx = symex.Ctx(); ctx.resolver = ux.resolver(XF)
        ctx.contracts["AABB::wrapping_distance_2"] = env_dist
        ctx.contracts["Generator::wrapping_distance_2"] = pt_dist
        ctx.contracts["ParentNode::envelope"] = lambda interp, env, node, args: Struct("AABB", {})
        payload = Struct("ParentNode", {}) if variant == "Parent" else Struct("Generator", {"loc": vec("leaf_loc"), "id": Var("leaf_id", "Int")})
        child = Variant("RTreeNode", variant, [payload])
        it = symex.Interp(ctx, {})
        env = symex.Env(ctx, {"query_point": qp, "shift": sh}, TRUE, "RTreeWrappingNearestNeighbourIter")
        seen.clear()
        w = it.call_closure(env, symex.Closure(cls[0], env), [child])
        if not isinstance(w, Struct) or key not in seen: raise extract.Undecided("lost anchor: extend_heap closure (%s child)" % variant)
        args = seen[key]
        same = lambda x, y: And(*[Eq(p, q) for p, q in zip(x.e, y.e)])
        obs.append(Obligation("%s.heap.extend_heap_keys_a_%s_child_with_its_own_distance_under_the_given_shift" % (prefix, variant.lower()), ctx.assume + ctx.ok,
                              And(Eq(w.f["distance"], real(dn)), same(w.f["shift"], sh), same(args[-2], qp), same(args[-1], sh), Const(w.f["node"] is child)), ux.label + " / map closure"))
    fns.append({"fn": ux.label + " / map closure", "slice_sha": extract.sha(extract.text_of(ux.tree, cls[0]))})
    # next(): the two arms of the match on the popped element
    un = Unit(RT, "RTreeWrappingNearestNeighbourIter::next@Iterator")
    ms = extract.find_nodes(un.fn["body"], lambda n: n.get("k") == "match")
    if len(ms) != 1: raise extract.Undecided("lost anchor: the match in next()")
    for variant in ("Parent", "Leaf"):
        ctx = symex.Ctx(); ctx.resolver = un.resolver(XF)
        rec = {}
        def ext(interp, env, node, args, rec=rec): rec["args"] = args; return symex.UNIT
        ctx.contracts["RTreeWrappingNearestNeighbourIter::extend_heap"] = ext
        ctx.contracts["ParentNode::children"] = lambda interp, env, node, args: Struct("Children", {})
        payload = Struct("ParentNode", {}) if variant == "Parent" else Struct("Generator", {"loc": vec("leaf_loc"), "id": Var("leaf_id", "Int")})
        cur = Struct("RTreeNodeDistanceWrapper", {"node": Variant("RTreeNode", variant, [payload]), "distance": real("d_cur"), "shift": arr3("s_cur")})
        it = symex.Interp(ctx, {})
        env = symex.Env(ctx, {"self": Struct("RTreeWrappingNearestNeighbourIter", {}), "current": cur}, TRUE, "RTreeWrappingNearestNeighbourIter")
        it.ev(env, ms[0])
        same = lambda x, y: And(*[Eq(p, q) for p, q in zip(x.e, y.e)])
        if variant == "Parent":
            if "args" not in rec or env.returns: raise extract.Undecided("lost anchor: Parent arm of next() calls extend_heap and does not return")
            obs.append(Obligation(prefix + ".heap.next_expands_a_parent_with_the_parents_own_shift", ctx.assume + ctx.ok, same(rec["args"][-1], cur.f["shift"]), un.label + " / Parent arm"))
        else:
            if len(env.returns) != 1 or "args" in rec: raise extract.Undecided("lost anchor: Leaf arm of next() returns the leaf")
            pc, rv = env.returns[0]
            if not (isinstance(rv, Opt) and isinstance(rv.val, Tup) and len(rv.val.e) == 3): raise extract.Undecided("next() does not return Some((t, distance, shift))")
            t, dd, ss = rv.val.e
            obs.append(Obligation(prefix + ".heap.next_returns_a_leaf_with_the_distance_and_shift_it_was_pushed_with", ctx.assume + ctx.ok,
                                  And(rv.some, Eq(dd, cur.f["distance"]), same(ss, cur.f["shift"]), Const(t is payload)), un.label + " / Leaf arm"))
    fns.append({"fn": un.label + " / match on the popped element", "slice_sha": extract.sha(extract.text_of(un.tree, ms[0]))})
    return obs, fns


def traversal_probe(seed, n_sets, tiny=False):
    """The traversal itself on the real crate (verif hook wrapping_nn_shifts = rtree_nn::wrapping_nn_iter over a bulk-loaded tree):
    for random, clustered and lattice generator sets the complete candidate sequence must start with the query generator (no shift), be
    non-decreasing in distance to generator + shift, and contain every (generator, lattice shift) pair exactly once, None iff shift zero."""
    from ..runner import replay_requests
    rng = random.Random(seed)
    reqs = []
    for t in range(n_sets):
        d = rng.choice([1, 2, 3]); n = rng.choice([1, 2, 7, 30])
        w = [1.0, rng.choice([1.0, 1.5]), rng.choice([1.0, 0.7])]
        if tiny and t % 2: w = [x * 2.0 ** -60 for x in w]        # exact scaling: a shift of one period is ~1e-18, far below any epsilon, and still not zero
        kind = t % 3
        if kind == 0: gens = [[rng.random() * w[0], rng.random() * w[1], rng.random() * w[2]] for _ in range(n)]
        elif kind == 1: gens = [[(0.5 + 0.01 * rng.random()) * w[0], (0.5 + 0.01 * rng.random()) * w[1], (0.5 + 0.01 * rng.random()) * w[2]] for _ in range(n)]
        else:
            m = max(1, round(n ** (1.0 / d)))
            gens = [[(i + 0.5) / m * w[0], ((j + 0.5) / m * w[1]) if d >= 2 else 0.0, ((k + 0.5) / m * w[2]) if d == 3 else 0.0]
                    for i in range(m) for j in range(m if d >= 2 else 1) for k in range(m if d == 3 else 1)]
        gens = [[g[0], g[1] if d >= 2 else 0.0, g[2] if d == 3 else 0.0] for g in gens]
        q = rng.randrange(len(gens))
        reqs.append({"op": "nn_shifts", "gens": gens, "query": q, "width": w, "dim": d, "take": 27 * len(gens) + 5})
    for rq, a in zip(reqs, replay_requests(reqs, timeout=600)):
        gens, q, w, d = rq["gens"], rq["query"], rq["width"], rq["dim"]
        seq = a.get("seq")
        short = {k: v for k, v in rq.items() if k != "gens"}
        if seq is None: return len(reqs), {"request": short, "gens": gens[:8], "real": a, "what": "iterator fails"}
        if not seq or seq[0][0] != q or seq[0][1] is not None:
            return len(reqs), {"request": short, "gens": gens[:8], "first": seq[:2], "what": "the first candidate is not the query generator itself without shift"}
        act = [True, d >= 2, d == 3]
        want = set()
        import itertools
        for i, (a_, b_, c_) in itertools.product(range(len(gens)), itertools.product(*[(-1, 0, 1) if act[x] else (0,) for x in range(3)])):
            pass
        want = {(i, tuple(s)) for i in range(len(gens)) for s in itertools.product(*[(-1, 0, 1) if act[x] else (0,) for x in range(3)])}
        got, prev = [], -1.0
        for idx, sh in seq:
            if sh is None: s = (0, 0, 0)
            else:
                s = tuple(int(round(sh[x] / w[x])) for x in range(3))
                if s == (0, 0, 0) or any(abs(sh[x] - s[x] * w[x]) > 1e-12 * w[x] for x in range(3)):
                    return len(reqs), {"request": short, "candidate": [idx, sh], "what": "reported shift is not a non-zero lattice vector (None iff zero)"}
            pos = [gens[idx][x] + s[x] * w[x] for x in range(3)]
            dist = sum((pos[x] - gens[q][x]) ** 2 for x in range(3))
            if dist < prev * (1 - 1e-12) - 1e-300:
                return len(reqs), {"request": short, "gens": gens[:8], "candidate": [idx, sh], "distance2": dist, "previous_distance2": prev, "what": "candidates are not in non-decreasing distance"}
            prev = max(prev, dist)
            got.append((idx, s))
        if len(got) != len(set(got)) or set(got) != want:
            missing = sorted(want - set(got))[:4]; dup = [g for g in set(got) if got.count(g) > 1][:4]
            return len(reqs), {"request": short, "gens": gens[:8], "n_candidates": len(got), "expected": len(want), "missing": missing, "duplicates": dup,
                               "what": "the candidate sequence is not every (generator, image) pair exactly once"}
    return len(reqs), None


def run(tier, seed):
    obs, fns = [], []
    for f in (distance_obligations, heap_obligations):
        o, fn = f("C17"); obs += o; fns += fn
    o3, f3 = images.obligations("C17"); obs += o3; fns += f3
    o4, f4 = rules.shift_mapping_obligations("C17"); obs += o4; fns += f4
    smt.discharge_all(obs, tier)
    results = [runner.from_smt(o) for o in obs]
    n, bad = traversal_probe(seed, 24 if tier == "quick" else 240)
    for x in results:
        if x.status == "refuted" and not (x.replay and x.replay.get("reproduced")):
            x.counterexample = x.counterexample or bad
            x.replay = {"reproduced": bad is not None, "search": "%d real traversals" % n, "mismatch": bad}
    results.append(Result("C17.bounded.real_traversal_is_complete_ordered_and_self_first", "R", "discharged" if bad is None else "refuted", 0.0, "replay",
                          "" if bad is None else repr(bad)[:3000], "rtree_nn::wrapping_nn_iter over rstar::RTree::bulk_load (real crate, verif hook)",
                          bounded="%d generator sets (1..30 points; random, clustered, lattice with equidistant points; 1D/2D/3D; cubic and non-cubic periods), complete sequences, seed %d" % (n, seed),
                          counterexample=bad, replay={"reproduced": bad is not None, "mismatch": bad}))
    meta = {
        "level": "proof", "functions": fns + [{"fn": "rtree_nn::RTreeWrappingNearestNeighbourIter (whole traversal: bounded stand-in only)", "backend": "replay"}],
        "assumptions": ["A-REAL for the E2 obligations",
                        "ASSUMED (external code): rstar's tree invariant - a parent's envelope contains the envelopes of its children and every generator below it, children() lists each child once; "
                        "std::collections::BinaryHeap::pop returns a greatest element w.r.t. Ord. With these, the proved lower bound + reversed comparator + shift inheritance give the "
                        "best-first theorem (non-decreasing order, every image once); the theorem itself is NOT machine-checked, the traversal is covered by the bounded stand-in",
                        "the non-periodic route uses rstar's own nearest_neighbor_iter (external): not under contract"],
        "trusted_base": ["vx (syn 2 dump)", "vlib/symex.py", "z3 4.8.12 / z3 5.1 / cvc5 1.0", "replay crate through verif_hooks::wrapping_nn_shifts"],
        "explanation": "Mechanisms of the wrapping best-first search as contracts on the real code: a generator's key is the squared distance from the shifted query point; an envelope's key is "
                       "a lower bound for every generator inside it (so a node is expanded before anything below it could be reported) and equals the point key for a one-point envelope; "
                       "the comparator reverses the distance order (std's max-heap pops the nearest); extend_heap keys each child with its own distance under the given shift; next() expands "
                       "a parent with the parent's shift and returns a leaf with the distance and shift it was pushed with; the 3^d root images are pushed once each; the reported shift is "
                       "None iff zero, else the negated query shift.",
    }
    return results, meta
