"""E2 contracts on the face-bookkeeping rules (boolean / integer logic), shared by C03, C07, C13:
  * `should_construct_face` in VoronoiCell::from_convex_cell
  * the `continue` guard of ConvexCell::compute_face_integrals_sym
  * the construct-or-default condition in Voronoi::build_voronoi_cells / VoronoiIntegrator::{build, build_voronoi_cells}
All slices are taken from the AST of the real source on every run."""
from .. import terms as tm, symex, extract
from ..terms import Var, Const, And, Or, Not, Eq, Lt, Le, Ge, Gt, Ite, Implies, TRUE, FALSE, Xor
from ..symex import Vec, Struct, Opt, SymArr, Enum
from ..e2 import *
from . import faces

XF = ("voronoi/half_space.rs", "voronoi.rs", "geometry.rs")


def sym_mask(tag="mask"):
    def factory(i):
        k = "%s_at_%d" % (tag, len(factory.made)); factory.made.append(i)
        return Var(k, "Bool")
    factory.made = []
    arr = SymArr(factory)
    return Opt(Var(tag + "_some", "Bool"), arr), arr


class Emit:
    """emit(L -> R): the condition under which VoronoiCell::from_convex_cell constructs the stored face of a clipping plane, as a function of
    the plane's labels. Taken semantically: the per-plane helper closure (the closure whose body calls VoronoiFace::init) is run, together with
    the cell-level statements in front of it (tolerant mode), and emit is the path condition under which VoronoiFace::init is reached - however
    the deciding predicate is written (inline, as a local, or extracted into a function)."""
    def __init__(self):
        self.u = Unit("voronoi/voronoi_cell.rs", "VoronoiCell::from_convex_cell")
        tree = self.u.tree
        calls_init = lambda n: bool(extract.find_nodes(n, lambda x: x.get("k") == "call" and x["f"].get("k") == "path" and x["f"]["segs"][-2:] == ["VoronoiFace", "init"]))
        cls = [c for c in extract.find_nodes(self.u.fn["body"], lambda n: n.get("k") == "closure") if calls_init(c["body"])]
        self.cl, self.loop = None, None
        if cls:
            self.cl = cls[0]     # pre-order: the outermost one
            if len(self.cl["params"]) != 2: raise extract.Undecided("lost anchor: closure |maybe_face, clipping_plane_idx|")
            holder = self.cl
        else:
            # no helper closure: the decision sits directly in the loop over the tetrahedra
            loops = [l for l in extract.find_nodes(self.u.fn["body"], lambda n: n.get("k") == "for") if calls_init(l["body"])]
            if not loops or loops[0]["pat"].get("k") != "pident": raise extract.Undecided("lost anchor: neither a per-plane closure nor a tetrahedron loop calls VoronoiFace::init")
            self.loop = holder = loops[0]
        self.sha = extract.sha(extract.text_of(tree, holder))
        self.consts = self.u.auto_consts(XF)
        # statements of the function body in front of the one that holds the closure / loop (cell-level lets the predicate may read)
        top = [s_ for s_ in self.u.fn["body"]["stmts"] if s_["sp"][0] <= holder["sp"][0] < s_["sp"][1]]
        if len(top) != 1: raise extract.Undecided("lost anchor: statement holding the per-plane decision")
        self.prefix = [s_ for s_ in self.u.fn["body"]["stmts"] if s_["sp"][1] <= top[0]["sp"][0]]

    def __call__(self, left, right_opt, shift_some, normal, dim, mask_opt, tag):
        hs = Struct("HalfSpace", {"plane": Struct("Plane", {"n": normal, "p": vec(tag + "_p")}), "d": real(tag + "_d"), "errb": real(tag + "_e"),
                                  "right_idx": right_opt, "shift": Opt(shift_some, vec(tag + "_shiftv"))})
        k = Var(tag + "_plane", "Int")
        planes = SymArr(lambda i: hs)
        cell = Struct("ConvexCell", {"idx": left, "dimensionality": dim, "clipping_planes": planes})
        ctx = symex.Ctx(); ctx.resolver = self.u.resolver(XF)
        reached = []
        def face_init(interp, env, node, args):
            reached.append(env.pc)
            return Struct("VoronoiFace", {})
        ctx.contracts["VoronoiFace::init"] = face_init
        it = symex.Interp(ctx, self.consts); it.tolerant = True
        it.note_params(self.u.fn)
        env = symex.Env(ctx, {"convex_cell": cell, "faces": symex.Havoc(ctx, "faces"), "mask": mask_opt}, TRUE, "VoronoiCell")
        if self.prefix:
            it.exec_block(env, {"k": "block", "stmts": self.prefix, "sp": [self.prefix[0]["sp"][0], self.prefix[-1]["sp"][1]]})
        env.vars.setdefault("idx", left)
        if self.cl is not None:
            it.call_closure(env, symex.Closure(self.cl, env), [symex.Havoc(ctx, "maybe_face"), k])
        else:
            tet = Struct("ConvexCellTet", {"plane_idx": k, "vertices": symex.Arr([vec(tag + "_t%d" % q) for q in range(3)])})
            env.vars[self.loop["pat"]["name"]] = tet
            it.exec_block(env, self.loop["body"])
        r = Or(*reached) if reached else FALSE
        # a skipped statement that contains a call of VoronoiFace::init means the evaluator did not see whether the face is constructed there:
        # the condition is then unknown on that path (an unconstrained boolean), and refutations count only if they replay
        calls = extract.find_nodes(self.u.fn["body"], lambda x: x.get("k") == "call" and x["f"].get("k") == "path" and x["f"]["segs"][-2:] == ["VoronoiFace", "init"])
        if any(lo <= c_["sp"][0] and c_["sp"][1] <= hi for c_ in calls for lo, hi in ctx.skipped):
            r = Or(r, ctx.fresh("havoc_unseen_face_construction", "Bool"))
        ctx.emit_havoc = has_havoc([r])
        return r, ctx


class SymSkip:
    """The plane is skipped by compute_face_integrals_sym: pattern + guard of the match arm whose body is `continue`."""
    def __init__(self):
        self.u = Unit("voronoi/convex_cell.rs", "ConvexCell::compute_face_integrals_sym")
        ms = extract.find_nodes(self.u.fn["body"], lambda n: n.get("k") == "match")
        if len(ms) != 1: raise extract.Undecided("lost anchor: the match in compute_face_integrals_sym")
        self.m = ms[0]
        arms = [a for a in self.m["arms"] if a["body"].get("k") == "continue"]
        if len(arms) != 1 or self.m["arms"].index(arms[0]) != 0: raise extract.Undecided("lost anchor: first arm `=> continue`")
        self.arm = arms[0]
        # the match must sit under `if integral.is_none()` in the tetrahedron loop, after the dimensionality filter
        self.sha = extract.sha(extract.text_of(self.u.tree, self.m))
        # the non-symmetric variant: identical text except for this `if integral.is_none() {..}` block
        self.u_ns = Unit("voronoi/convex_cell.rs", "ConvexCell::compute_face_integrals")

    def __call__(self, left, right_opt, shift_some, mask_arr, tag):
        hs = Struct("HalfSpace", {"plane": Struct("Plane", {"n": vec(tag + "_n"), "p": vec(tag + "_p")}), "d": real(tag + "_d"), "errb": real(tag + "_e"),
                                  "right_idx": right_opt, "shift": Opt(shift_some, vec(tag + "_shiftv"))})
        planes = SymArr(lambda i: hs)
        cell = Struct("ConvexCell", {"idx": left, "clipping_planes": planes})
        ctx = symex.Ctx(); ctx.resolver = self.u.resolver(XF)
        it = symex.Interp(ctx, {})
        env = symex.Env(ctx, {"self": cell, "tet": Struct("ConvexCellTet", {"plane_idx": Var(tag + "_plane", "Int")}), "mask": mask_arr}, TRUE, "ConvexCell")
        scrut = it.ev(env, self.m["e"])
        binds = {}
        c = it.match_pat(env, self.arm["pat"], scrut, binds)
        if c is FALSE: return FALSE, ctx
        ge = env.fork(And(env.pc, c)); ge.vars.update(binds)
        g = it.ev(ge, self.arm["guard"]) if self.arm["guard"] is not None else TRUE
        return And(c, g), ctx

    def structural_obligation(self, prefix):
        """compute_face_integrals_sym = compute_face_integrals + the guarded skip: the two function bodies are the same
        token sequence once the `if integral.is_none() { match .. }` statement is removed (syntactic, reported as an obligation)."""
        import re
        def body_without_skip(u, drop):
            text = extract.text_of(u.tree, u.fn["body"])
            if drop:
                ifs = extract.find_nodes(u.fn["body"], lambda n: n.get("k") == "if" and n["c"].get("k") == "mcall" and n["c"]["m"] == "is_none")
                if len(ifs) != 1: raise extract.Undecided("lost anchor: `if integral.is_none()`")
                b0 = u.fn["body"]["sp"][0]
                text = text[:ifs[0]["sp"][0] - b0] + text[ifs[0]["sp"][1] - b0:]
            text = re.sub(r"//[^\n]*", "", text)
            return re.sub(r"\s+", "", text)
        same = body_without_skip(self.u, True) == body_without_skip(self.u_ns, False)
        return Obligation(prefix + ".sym_variant_is_nonsym_plus_guarded_skip", [], Const(bool(same)), self.u.label,
                          note="token-level comparison of the two function bodies with the skip statement removed")


class SymKept:
    """kept(plane): the condition under which compute_face_integrals_sym feeds a tetrahedron of the plane to the face integral, for the FIRST
    tetrahedron of the plane (no integral yet). Taken semantically: the body of the tetrahedron loop is run once (tolerant mode) and kept is the
    path condition at `integral.collect(..)` - whether the loop is a `for` or a `loop { match it.next() .. }`, and however the skip is written."""
    def __init__(self, fn="ConvexCell::compute_face_integrals_sym"):
        self.u = Unit("voronoi/convex_cell.rs", fn)
        collects = lambda n: bool(extract.find_nodes(n, lambda x: x.get("k") == "mcall" and x["m"] == "collect"))
        loops = [l for l in extract.find_nodes(self.u.fn["body"], lambda n: n.get("k") in ("for", "loop", "while")) if collects(l["body"])]
        if not loops: raise extract.Undecided("lost anchor: the tetrahedron loop of compute_face_integrals_sym")
        self.loop = loops[0]
        self.sha = extract.sha(extract.text_of(self.u.tree, self.loop))

    def __call__(self, left, right_opt, shift_some, normal, dim, mask_arr, tag):
        hs = Struct("HalfSpace", {"plane": Struct("Plane", {"n": normal, "p": vec(tag + "_p")}), "d": real(tag + "_d"), "errb": real(tag + "_e"),
                                  "right_idx": right_opt, "shift": Opt(shift_some, vec(tag + "_shiftv"))})
        planes = SymArr(lambda i: hs)
        cell = Struct("ConvexCell", {"idx": left, "clipping_planes": planes, "dimensionality": dim, "loc": vec(tag + "_loc")})
        ctx = symex.Ctx(); ctx.resolver = self.u.resolver(XF)
        reached = []
        def collect(interp, env, node, args):
            reached.append(env.pc); return symex.UNIT
        ctx.contracts["?::collect"] = collect
        it = symex.Interp(ctx, self.u.auto_consts(XF)); it.tolerant = True
        it.note_params(self.u.fn)
        k = Var(tag + "_plane", "Int")
        tet = Struct("ConvexCellTet", {"plane_idx": k, "vertices": symex.Arr([vec(tag + "_t%d" % q) for q in range(3)])})
        none_yet = SymArr(lambda i: Opt(FALSE, None))          # no integral for any plane yet: the first tetrahedron of the plane
        env = symex.Env(ctx, {"self": cell, "mask": mask_arr, "extra_data": symex.UNIT, "integrals": none_yet}, TRUE, "ConvexCell")
        ctx.mutable.add("integrals")
        lp = self.loop
        if lp["k"] == "for":
            if lp["pat"].get("k") != "pident": raise extract.Undecided("lost anchor: loop variable of the tetrahedron loop")
            env.vars[lp["pat"]["name"]] = tet
            it.exec_block(env, lp["body"])
        else:
            # `loop { let tet = match it.next() { Some(tet) => tet, None => break }; .. }`: the statements in front of the loop are run (tolerant)
            # with self.decompose() as an opaque iterator that yields the tetrahedron, then the loop body once
            its = symex.IterV("tets", lambda k_: tet); its.always_some = True
            ctx.contracts["ConvexCell::decompose"] = lambda interp, env_, node, args: its
            top = [s_ for s_ in self.u.fn["body"]["stmts"] if s_["sp"][0] <= lp["sp"][0] < s_["sp"][1]]
            pre = [s_ for s_ in self.u.fn["body"]["stmts"] if top and s_["sp"][1] <= top[0]["sp"][0]]
            if pre: it.exec_block(env, {"k": "block", "stmts": pre, "sp": [pre[0]["sp"][0], pre[-1]["sp"][1]]})
            env.vars["integrals"] = none_yet
            it.exec_block(env, lp["body"])
        kept = Or(*reached) if reached else FALSE
        calls = extract.find_nodes(lp["body"], lambda x: x.get("k") == "mcall" and x["m"] == "collect")
        if any(lo <= c_["sp"][0] and c_["sp"][1] <= hi for c_ in calls for lo, hi in ctx.skipped):
            kept = Or(kept, ctx.fresh("havoc_unseen_collect", "Bool"))
        ctx.kept_havoc = has_havoc([kept])
        return kept, ctx


def valid_dim(dim, n):
    """Dimensionality::vector_is_valid as specified by the property: unused components are exactly zero."""
    return And(Implies(dim.is_("OneD"), And(Eq(n.c[1], R0), Eq(n.c[2], R0))), Implies(dim.is_("TwoD"), Eq(n.c[2], R0)))


@isolated('face_rule')
def emit_obligations(prefix, want=("reciprocal", "partial", "sym")):
    E = Emit()
    S = None
    dim, dimc = dim_enum()
    i, j = Var("i", "Int"), Var("j", "Int")
    n = vec("n")
    negn = Vec([-c for c in n.c])
    mask, marr = sym_mask()
    base = dimc + [Ge(i, Const(0, "Int")), Ge(j, Const(0, "Int")), tm.Ne(i, j)]
    obs = []
    some = lambda t: Opt(TRUE, t)
    none = Opt(FALSE, None)
    eij, c1 = E(i, some(j), FALSE, n, dim, mask, "ij")
    eji, c2 = E(j, some(i), FALSE, negn, dim, mask, "ji")
    # mask[i], mask[j]: the bits the property talks about (created here if the predicate did not read them - then it cannot depend on them)
    for t_ in (i, j):
        if t_ not in marr.memo: marr.memo[t_] = marr.factory(t_)
    mi, mj = marr.memo[i], marr.memo[j]
    valid = valid_dim(dim, n)
    A = base + c1.assume + c2.assume
    sel = lambda m: Or(Not(mask.some), m)     # cell is constructed: no mask or mask bit set
    obs.append(Obligation(prefix + ".emit.requires_satisfiable", A + [valid, sel(mi), sel(mj)], TRUE, E.u.label, expect_sat=True))
    if "reciprocal" in want:
        obs.append(Obligation(prefix + ".emit.unshifted_face_between_constructed_cells_emitted_by_exactly_one_side", A + [valid, sel(mi), sel(mj)], Xor(eij, eji), E.u.label))
        obs.append(Obligation(prefix + ".emit.emitting_side_is_lower_index_when_both_constructed", A + [valid, sel(mi), sel(mj)], Eq(eij, Lt(i, j)), E.u.label))
        es, c3 = E(i, some(j), TRUE, n, dim, mask, "sh")
        obs.append(Obligation(prefix + ".emit.shifted_face_emitted_by_its_own_cell", A + c3.assume + [valid], es, E.u.label,
                              note="periodic faces come in reciprocal pairs: each side stores its own copy"))
        eb, c4 = E(i, none, FALSE, n, dim, mask, "bd")
        obs.append(Obligation(prefix + ".emit.boundary_face_always_emitted", A + c4.assume + [valid], eb, E.u.label))
        obs.append(Obligation(prefix + ".emit.invalid_dimensionality_never_emitted", A + [Not(valid)], And(Not(eij), Not(eji)), E.u.label))
    if "partial" in want:
        cnt = Ite(And(sel(mi), eij), Const(1, "Int"), Const(0, "Int")) + Ite(And(sel(mj), eji), Const(1, "Int"), Const(0, "Int"))
        obs.append(Obligation(prefix + ".emit.face_count_is_one_iff_some_side_selected", A + [valid],
                              Eq(cnt, Ite(Or(sel(mi), sel(mj)), Const(1, "Int"), Const(0, "Int"))), E.u.label,
                              note="count(i,j) = [sel i and emit(i->j)] + [sel j and emit(j->i)]"))
        obs.append(Obligation(prefix + ".emit.selected_side_is_left_when_exactly_one_selected", A + [valid, sel(mi), Not(sel(mj))], And(eij, Not(And(sel(mj), eji))), E.u.label))
    if "sym" in want:
        K = SymKept()
        active, aarr = sym_mask("active")
        kept, c5 = K(i, some(j), FALSE, n, dim, aarr, "sk")
        if j not in aarr.memo: aarr.memo[j] = aarr.factory(j)
        aj = aarr.memo[j]
        o_ = Obligation(prefix + ".sym.skip_iff_unshifted_lower_index_active_neighbour", base + c5.assume, Eq(kept, And(valid, Not(And(Lt(j, i), aj)))), K.u.label,
                        note="kept = a tetrahedron of the plane reaches integral.collect; skipped iff invalid dimensionality or an unshifted lower-index active right neighbour")
        o_.havoc = c5.kept_havoc; obs.append(o_)
        ks, c6 = K(i, some(j), TRUE, n, dim, aarr, "sks")
        kb, c7 = K(i, none, FALSE, n, dim, aarr, "skb")
        o_ = Obligation(prefix + ".sym.never_skips_shifted_or_boundary_faces", base + c6.assume + c7.assume, And(Eq(ks, valid), Eq(kb, valid)), K.u.label)
        o_.havoc = c6.kept_havoc or c7.kept_havoc; obs.append(o_)
        # one-to-one with the stored face list: for an active cell, kept_sym == emit (mask = Some(active))
        e_act, c8 = E(i, some(j), FALSE, n, dim, Opt(TRUE, aarr), "ea")
        o_ = Obligation(prefix + ".sym.kept_faces_are_exactly_the_stored_faces", base + c5.assume + c8.assume, Eq(kept, e_act), K.u.label,
                        note="symmetric integral list <-> Voronoi::faces of the same (active) cell, plane by plane")
        o_.havoc = c5.kept_havoc or getattr(c8, "emit_havoc", False); obs.append(o_)
        # the non-symmetric variant feeds every plane of valid dimensionality: symmetric = non-symmetric minus exactly the skipped planes
        KN = SymKept("ConvexCell::compute_face_integrals")
        kn, c9 = KN(i, some(j), FALSE, n, dim, aarr, "ns")
        kns, c10 = KN(i, some(j), TRUE, n, dim, aarr, "nss")
        knb, c11 = KN(i, none, FALSE, n, dim, aarr, "nsb")
        o_ = Obligation(prefix + ".sym_variant_is_nonsym_plus_guarded_skip", base + c9.assume + c10.assume + c11.assume, And(Eq(kn, valid), Eq(kns, valid), Eq(knb, valid)), KN.u.label,
                        note="compute_face_integrals keeps a plane iff its normal is of valid dimensionality; with the three obligations above: sym = non-sym minus the skipped planes")
        o_.havoc = c9.kept_havoc or c10.kept_havoc or c11.kept_havoc; obs.append(o_)
    hv = any(getattr(c_, "emit_havoc", False) for c_ in (c1, c2))
    for o in obs:
        if ".emit." in o.name or "kept_faces" in o.name: o.havoc = hv
        if ".sym." in o.name and o.replay is None and not o.expect_sat: o.replay = replay_sym
    fns = [{"fn": E.u.label + " / cell-level prefix + the per-plane closure, up to the call of VoronoiFace::init", "slice_sha": E.sha}]
    if "sym" in want: fns.append({"fn": K.u.label + " / body of the tetrahedron loop, up to integral.collect", "slice_sha": K.sha})
    return obs, fns


@isolated('construct_or_default')
def constructed_iff_selected_obligations(prefix):
    """The per-cell closures: a cell is constructed iff no mask or mask[idx]; otherwise VoronoiCell::default() / None."""
    obs, fns = [], []
    u = Unit("voronoi.rs", "Voronoi::build_voronoi_cells")
    ifs = [n for n in extract.find_nodes(u.fn["body"], lambda n: n.get("k") == "if") if n["c"].get("k") == "mcall" and n["c"]["m"] == "map_or"]
    if len(ifs) != 1: raise extract.Undecided("lost anchor: `if mask.map_or(true, |mask| mask[idx])` in build_voronoi_cells")
    node = ifs[0]
    mask, marr = sym_mask()
    idx = Var("idx", "Int")
    ctx = symex.Ctx(); it = symex.Interp(ctx, {})
    env = symex.Env(ctx, {"mask": mask, "idx": idx}, TRUE, "Voronoi")
    c = it.ev(env, node["c"])
    mi = marr.memo.get(idx)
    if mi is None: raise extract.Undecided("build closure no longer reads mask[idx]")
    obs.append(Obligation(prefix + ".direct_route.cell_constructed_iff_no_mask_or_selected", ctx.assume, Eq(c, Or(Not(mask.some), mi)), u.label))
    # then-branch calls from_convex_cell with this mask, else-branch is VoronoiCell::default()
    then_calls = extract.find_nodes(node["then"], lambda n: n.get("k") == "call" and n["f"].get("k") == "path" and n["f"]["segs"][-1] == "from_convex_cell")
    els = node["else"]
    else_default = els is not None and len(extract.find_nodes(els, lambda n: n.get("k") == "call" and n["f"].get("k") == "path" and n["f"]["segs"] == ["VoronoiCell", "default"])) == 1 \
        and len(els["stmts"]) == 1
    ok = len(then_calls) == 1 and then_calls[0]["args"][2].get("k") == "path" and then_calls[0]["args"][2]["segs"] == ["mask"] and else_default
    obs.append(Obligation(prefix + ".direct_route.selected_builds_with_same_mask_else_default_cell", [], Const(bool(ok)), u.label,
                          note="syntactic: then-branch = from_convex_cell(&convex_cell, faces, mask); else-branch = VoronoiCell::default()"))
    fns.append({"fn": u.label + " / build closure", "slice_sha": extract.sha(extract.text_of(u.tree, node))})
    # integrator route
    ui = Unit("voronoi.rs", "VoronoiIntegrator::build_voronoi_cells")
    ms = extract.find_nodes(ui.fn["body"], lambda n: n.get("k") == "match")
    ok2 = False
    if len(ms) == 1 and len(ms[0]["arms"]) == 2:
        a0, a1 = ms[0]["arms"]
        c0 = extract.find_nodes(a0["body"], lambda n: n.get("k") == "call" and n["f"].get("k") == "path" and n["f"]["segs"][-1] == "from_convex_cell")
        txt = extract.text_of(ui.tree, a0["body"])
        ok2 = (a0["pat"].get("k") == "ptstruct" and a0["pat"]["path"] == ["Some"] and len(c0) == 1 and "Some(&self.cell_is_active)" in txt.replace(" ", "").replace("\n", "").replace("Some(&self.cell_is_active)", "Some(&self.cell_is_active)")
               and a1["pat"].get("k") in ("ppath", "pident") and "VoronoiCell::default()" in extract.text_of(ui.tree, a1["body"]).replace(" ", ""))
    obs.append(Obligation(prefix + ".integrator_route.some_cell_builds_with_cell_is_active_else_default", [], Const(bool(ok2)), ui.label,
                          note="syntactic: Some(cell) => from_convex_cell(cell, faces, Some(&self.cell_is_active)), None => VoronoiCell::default()"))
    fns.append({"fn": ui.label, "slice_sha": ui.sha})
    ub = Unit("voronoi.rs", "VoronoiIntegrator::build")
    ifs = [n for n in extract.find_nodes(ub.fn["body"], lambda n: n.get("k") == "if") if n["c"].get("k") == "index"]
    ok3 = len(ifs) == 1 and extract.text_of(ub.tree, ifs[0]["c"]).replace(" ", "") == "cell_is_active[idx]"
    let = extract.find_let(ub.fn, "cell_is_active")
    ok3 = ok3 and extract.text_of(ub.tree, let["init"]).replace(" ", "").replace("\n", "") == "mask.map_or(vec![true;generators.len()],|mask|mask.to_vec())"
    obs.append(Obligation(prefix + ".integrator_route.cell_is_active_is_mask_or_all_true", [], Const(bool(ok3)), ub.label,
                          note="syntactic: cell_is_active = mask.map_or(vec![true; n], |m| m.to_vec()); Some(cell) iff cell_is_active[idx]"))
    fns.append({"fn": ub.label + " / cell_is_active", "slice_sha": extract.sha(extract.text_of(ub.tree, let))})
    return obs, fns


def replay_pair(ob):
    """Replay a refuted bookkeeping rule on the real API: a row of generators in which i and j are adjacent, built with the
    model's mask; the stored face list is then checked against the property's sentence."""
    from ..runner import replay_requests
    m = ob.model or {}
    i, j = int(m.get("i", 0)), int(m.get("j", 1))
    if i == j or max(i, j) > 40 or min(i, j) < 0: i, j = (0, 1) if i < j else (1, 0)
    n = max(i, j) + 1
    has_mask = bool(m.get("mask_some", m.get("active_some", True)))
    mi = bool(m.get("mask_at_0", m.get("active_at_0", True))); mj = bool(m.get("mask_at_1", m.get("active_at_1", True)))
    # which memo slot belongs to which index depends on evaluation order; try both assignments
    out = []
    for (bi, bj) in {(mi, mj), (mj, mi)}:
        slot = {i: 0, j: 1}
        nxt = 2
        for k in range(n):
            if k not in slot: slot[k] = nxt; nxt += 1
        gens = [[(slot[k] + 0.5) / n, 0.5, 0.5] for k in range(n)]
        mask = [True] * n; mask[i], mask[j] = bi, bj
        req = {"op": "build", "gens": gens, "anchor": [0, 0, 0], "width": [1, 1, 1], "dim": 3}
        if has_mask: req["mask"] = mask
        a = replay_requests([req])[0]
        faces = [f for f in a.get("faces", []) if f["shift"] is None and {f["left"], f["right"]} == {i, j}]
        sel_i, sel_j = (bi or not has_mask), (bj or not has_mask)
        want = 1 if (sel_i or sel_j) else 0
        bad = len(faces) != want or any((f["left"] == i and not sel_i) or (f["left"] == j and not sel_j) for f in faces)
        if sel_i and sel_j and faces and faces[0]["left"] != min(i, j): bad = True
        out.append({"request": req, "faces_between_i_j": faces, "expected_count": want, "violates": bad})
    if not any(o["violates"] for o in out):
        srch = replay_mask_search()
        if srch["reproduced"]: return srch
    return {"i": i, "j": j, "runs": out, "reproduced": any(o["violates"] for o in out),
            "what": "stored faces between cells i and j (no shift) vs 'exactly once, selected/lower-index cell on the left'"}


def replay_mask_search():
    """Every mask over small 1D / 2D generator sets (reflective and periodic), through the public API, against the unmasked build of the same
    set: a pair of cells that shares an unshifted face in the full build must share exactly one stored face iff some side is selected, with a
    selected cell on the left (the lower index when both are selected); a shifted face is stored once per selected left cell."""
    import itertools
    from ..runner import replay_requests
    sets = [(1, [[0.1, 0, 0], [0.3, 0, 0], [0.6, 0, 0], [0.9, 0, 0]]),
            (2, [[0.2, 0.2, 0], [0.7, 0.3, 0], [0.4, 0.8, 0], [0.8, 0.75, 0], [0.5, 0.5, 0]])]
    key = lambda f: (f["left"], f["right"], None if f["shift"] is None else tuple(round(x, 9) for x in f["shift"]))
    n_runs = 0
    for dim, gens in sets:
        for periodic in (False, True):
            base = {"op": "build", "gens": gens, "anchor": [0, 0, 0], "width": [1, 1, 1], "dim": dim, "periodic": periodic}
            masks = [list(m) for m in itertools.product([True, False], repeat=len(gens))]
            ans = replay_requests([base] + [dict(base, mask=m) for m in masks], timeout=600)
            full, rest = ans[0], ans[1:]
            if "faces" not in full: continue
            # adjacency of the full tessellation, as unordered pairs (unshifted) and as directed (left, right, shift) for periodic faces
            pairs = {frozenset((f["left"], f["right"])) for f in full["faces"] if f["right"] is not None and f["shift"] is None}
            shifted = set()
            for f in full["faces"]:
                if f["shift"] is not None: shifted.add(key(f))
            for m, a in zip(masks, rest):
                n_runs += 1
                if "faces" not in a: return {"reproduced": True, "request": dict(base, mask=m), "real": a, "what": "masked build fails"}
                fs = a["faces"]
                for pr in pairs:
                    i, j = sorted(pr)
                    got = [f for f in fs if f["shift"] is None and f["right"] is not None and {f["left"], f["right"]} == {i, j}]
                    want = 1 if (m[i] or m[j]) else 0
                    wrong_left = any(not m[f["left"]] for f in got) or (m[i] and m[j] and got and got[0]["left"] != i)
                    if len(got) != want or wrong_left:
                        return {"reproduced": True, "request": dict(base, mask=m), "pair": [i, j], "stored_faces_between_them": got, "expected_count": want,
                                "what": "face between cells %d and %d under mask %r: stored %d times (property: %d, selected / lower-index cell on the left)" % (i, j, m, len(got), want)}
                for (l, r, sh) in shifted:
                    got = [f for f in fs if key(f) == (l, r, sh)]
                    if len(got) != (1 if m[l] else 0):
                        return {"reproduced": True, "request": dict(base, mask=m), "periodic_face": [l, r, list(sh)], "stored": len(got),
                                "what": "periodic face (left %d, right %d) under mask %r stored %d times, property: once iff the left cell is selected" % (l, r, m, len(got))}
                if any(not m[f["left"]] for f in fs):
                    return {"reproduced": True, "request": dict(base, mask=m), "what": "a face has an unselected left cell"}
    return {"reproduced": False, "searched": n_runs, "what": "all masks over a 4-generator 1D and a 5-generator 2D set, reflective and periodic"}


def replay_sym(ob=None):
    """The symmetric face integrals against the stored faces of the same integrator (public API): same (left, right, shift) list, for small
    1D/2D/3D sets, periodic and not, every mask."""
    import itertools
    from ..runner import replay_requests
    sets = [(1, [[0.1, 0, 0], [0.35, 0, 0], [0.6, 0, 0], [0.9, 0, 0]]), (2, [[0.2, 0.2, 0], [0.7, 0.3, 0], [0.4, 0.8, 0], [0.8, 0.75, 0]]),
            (3, [[0.2, 0.3, 0.4], [0.7, 0.6, 0.8], [0.5, 0.1, 0.9]])]
    key = lambda f: (f["left"], f["right"], None if f["shift"] is None else tuple(round(x, 9) for x in f["shift"]))
    reqs = []
    for dim, gens in sets:
        for per in (False, True):
            for m in itertools.product([True, False], repeat=len(gens)):
                if any(m): reqs.append({"op": "sym_vs_stored", "gens": gens, "anchor": [0, 0, 0], "width": [1, 1, 1], "dim": dim, "periodic": per, "mask": list(m)})
    for rq, a in zip(reqs, replay_requests(reqs, timeout=600)):
        if "sym" not in a: return {"reproduced": True, "request": rq, "real": a, "what": "integrator fails"}
        if [key(f) for f in a["sym"]] != [key(f) for f in a["stored"]]:
            return {"reproduced": True, "request": rq, "symmetric_integrals": [key(f) for f in a["sym"]], "stored_faces": [key(f) for f in a["stored"]],
                    "what": "the symmetric face integrals do not correspond one-to-one, in order, with the stored face list"}
    return {"reproduced": False, "searched": len(reqs)}


def replay_shift_mapping(ob=None):
    """Complete periodic candidate sequences on the real crate, including boxes of width 2^-60 (a shift is absent iff it is exactly zero)."""
    from .c17 import traversal_probe
    n, bad = traversal_probe(20260930, 18, tiny=True)
    return {"reproduced": bad is not None, "searched": n, "mismatch": bad}


@isolated('shift')
def shift_mapping_obligations(prefix):
    """rtree_nn::wrapping_nn_iter's closure: query shift sigma -> None iff sigma == 0, else Some(-sigma)."""
    u = Unit("rtree_nn.rs", "wrapping_nn_iter")
    maps = extract.find_nodes(u.fn["body"], lambda n: n.get("k") == "mcall" and n["m"] == "map" and len(n["args"]) == 1 and n["args"][0].get("k") == "closure")
    if len(maps) != 1: raise extract.Undecided("lost anchor: the map closure of wrapping_nn_iter")
    cl = maps[0]["args"][0]
    if len(cl["params"]) != 1 or cl["params"][0]["k"] != "ptuple" or len(cl["params"][0]["elems"]) != 3:
        raise extract.Undecided("lost anchor: closure |(g, _distance, shift)|")
    sig = [real("sigma_%s" % c) for c in "xyz"]
    g = Struct("Generator", {"loc": vec("g_loc"), "id": Var("g_id", "Int")})
    ctx = symex.Ctx(); ctx.resolver = u.resolver(("voronoi/generator.rs",))
    it = symex.Interp(ctx, {})
    env = symex.Env(ctx, {}, TRUE, None)
    r = it.call_closure(env, symex.Closure(cl, env), [symex.Tup([g, real("dist"), symex.Arr(sig)])])
    if not (isinstance(r, symex.Tup) and len(r.e) == 2 and isinstance(r.e[1], Opt)): raise extract.Undecided("closure result is not (id, Option<shift>)")
    rid, rs = r.e
    zero = And(*[Eq(s, R0) for s in sig])
    obs = [Obligation(prefix + ".shift.none_iff_query_shift_zero", ctx.assume, Eq(rs.some, Not(zero)), u.label, replay=replay_shift_mapping),
           Obligation(prefix + ".shift.reported_shift_is_minus_query_shift", ctx.assume + [Not(zero)], veq(rs.val, Vec([-s for s in sig])) if rs.val is not None else FALSE, u.label, replay=replay_shift_mapping),
           Obligation(prefix + ".shift.reports_generator_id", ctx.assume, Eq(rid, g.f["id"]), u.label, replay=replay_shift_mapping)]
    return obs, [{"fn": u.label + " / map closure", "slice_sha": extract.sha(extract.text_of(u.tree, cl))}]


def frame_mask_obligation(prefix):
    """`mask` is not read by the geometric construction: it occurs in no function between ConvexCell::build and the integrals."""
    tree = extract.vx_dump(extract.src_path("voronoi/convex_cell.rs"))
    fns = extract.all_fns(tree)
    import re
    geom = ["ConvexCell::build", "ConvexCell::init", "ConvexCell::clip_by_plane", "ConvexCell::compute_boundary", "ConvexCell::update_safety_radius",
            "ConvexCell::decompose", "DecompositionWithoutFaces::next", "DecompositionWithoutFaces::load_vertex", "DecompositionWithFaces::next",
            "Vertex::from_dual", "ConvexCell::new"]
    missing = [g for g in geom if g not in fns]
    if missing: raise extract.Undecided("lost anchors: %r" % missing)
    users = [g for g in geom if re.search(r"\bmask\b", re.sub(r"//[^\n]*", "", extract.text_of(tree, fns[g])))]
    t2 = extract.vx_dump(extract.src_path("voronoi/voronoi_cell.rs"))
    fc = extract.find_fn(t2, "VoronoiCell::from_convex_cell")
    body = re.sub(r"//[^\n]*", "", extract.text_of(t2, fc["body"]))
    occ = [m.start() for m in re.finditer(r"\bmask\b", body)]
    let_sc = extract.find_let(fc, "should_construct_face")
    lo, hi = let_sc["sp"][0] - fc["body"]["sp"][0], let_sc["sp"][1] - fc["body"]["sp"][0]
    raw = extract.text_of(t2, fc["body"])
    occ_raw = [m.start() for m in re.finditer(r"\bmask\b", raw) if not raw[:m.start()].split("\n")[-1].lstrip().startswith("//")]
    outside = [o for o in occ_raw if not (lo <= o < hi)]
    ok = not users and not outside
    return Obligation(prefix + ".frame.mask_read_only_by_should_construct_face", [], Const(bool(ok)), "voronoi_cell.rs / convex_cell.rs",
                      note="syntactic frame check: functions reading `mask`: %r; occurrences in from_convex_cell outside the predicate: %d" % (users, len(outside)))
