"""Extraction of real source text from /repo on every run (via the `vx` syn dumper)."""
import hashlib, json, os, subprocess, sys

VERIF = os.path.dirname(os.path.dirname(os.path.abspath(__file__)))
REPO = os.environ.get("VERIF_REPO", "/repo")
BUILD = os.path.join(VERIF, ".build")
VX = os.path.join(BUILD, "vx", "release", "vx")
import hashlib as _hl
# scratch copies of the repository (audit, seed matrix: VERIF_REPO) get their own generated files, so concurrent runs never share one
SCRATCH_TAG = "" if os.environ.get("VERIF_REPO", "/repo") == "/repo" else "-" + _hl.sha256(os.environ["VERIF_REPO"].encode()).hexdigest()[:8]


class Undecided(Exception):
    """Machinery could not decide (lost anchor, unsupported construct, tool failure): exit 2, never an alarm."""


_cache = {}


def src_path(rel):
    return os.path.join(REPO, "src", rel)


def read(path):
    with open(path, encoding="utf-8") as f:
        return f.read()


def vx_dump(path):
    """JSON tree of a Rust file (cached per content hash for this process)."""
    text = read(path)
    h = hashlib.sha256(text.encode()).hexdigest()
    if h in _cache:
        return _cache[h]
    if not os.path.exists(VX):
        raise Undecided("vx not built (run setup): %s" % VX)
    p = subprocess.run([VX, path], capture_output=True, text=True)
    if p.returncode != 0:
        raise Undecided("vx failed on %s: %s" % (path, p.stderr[:300]))
    tree = json.loads(p.stdout)
    tree["_text"] = text
    tree["_bytes"] = text.encode()
    _cache[h] = tree
    return tree


def all_fns(tree):
    out = {}

    def walk(items):
        for it in items:
            k = it.get("k")
            if k == "fn":
                out.setdefault(it["path"], it)
            elif k == "impl":
                import re
                assoc = {}
                for ii in it["items"]:
                    if ii.get("k") == "other":
                        m = re.match(r"type (\w+) = (.+?) ;", ii["text"])
                        if m: assoc[m.group(1)] = m.group(2).replace(" ", "")
                for ii in it["items"]:
                    if ii.get("k") == "fn": ii["_assoc"] = assoc
                walk(it["items"])
            elif k == "mod" and it.get("items"):
                # skip #[cfg(test)] modules
                if any("test" in a["text"] for a in it.get("attrs", []) if a["path"] == "cfg"):
                    continue
                walk(it["items"])
    walk(tree["items"])
    return out


def all_items(tree, kind):
    out = {}

    def walk(items):
        for it in items:
            if it.get("k") == kind:
                out.setdefault(it.get("name") or it.get("path"), it)
            elif it.get("k") == "mod" and it.get("items"):
                if any("test" in a["text"] for a in it.get("attrs", []) if a["path"] == "cfg"):
                    continue
                walk(it["items"])
    walk(tree["items"])
    return out


def find_fn(tree, path):
    fns = all_fns(tree)
    if path not in fns:
        raise Undecided("lost anchor: function %s not found in %s" % (path, tree["file"]))
    return fns[path]


def text_of(tree, node_or_span):
    sp = node_or_span["sp"] if isinstance(node_or_span, dict) else node_or_span
    return tree["_bytes"][sp[0]:sp[1]].decode()


def sha(text):
    return hashlib.sha256(text.encode()).hexdigest()[:16]


def find_nodes(node, pred, out=None):
    """Pre-order list of sub-nodes satisfying pred."""
    if out is None:
        out = []
    if isinstance(node, dict):
        if "k" in node and pred(node):
            out.append(node)
        for key, v in node.items():
            if key.startswith("_"):
                continue
            find_nodes(v, pred, out)
    elif isinstance(node, list):
        for v in node:
            find_nodes(v, pred, out)
    return out


def find_let(fn, name, nth=0):
    """The nth `let <name> = ..` statement inside fn (pre-order)."""
    def is_let(n):
        if n.get("k") != "let":
            return False
        p = n["pat"]
        while p["k"] == "ptype":
            p = p["pat"]
        return p["k"] == "pident" and p["name"] == name
    got = find_nodes(fn["body"], is_let)
    if len(got) <= nth:
        raise Undecided("lost anchor: let %s (#%d) in %s" % (name, nth, fn["path"]))
    return got[nth]


def expanded_source(features=("ibig",)):
    """Macro-expanded crate text from rustc (-Zunpretty=expanded), mechanical."""
    tgt = os.path.join(BUILD, "expand-target")
    out = os.path.join(BUILD, "expanded-%s.rs" % "-".join(features)) if not SCRATCH_TAG else os.path.join(BUILD, "expanded%s-%s.rs" % (SCRATCH_TAG, "-".join(features)))
    env = dict(os.environ, CARGO_NET_OFFLINE="true", CARGO_TARGET_DIR=tgt)
    cmd = ["cargo", "+nightly", "rustc", "--lib", "--offline", "--no-default-features",
           "--features", ",".join(features), "--", "-Zunpretty=expanded"]
    p = subprocess.run(cmd, cwd=REPO, env=env, capture_output=True, text=True, timeout=900)
    if p.returncode != 0:
        raise Undecided("rustc -Zunpretty=expanded failed: " + p.stderr[-600:])
    with open(out, "w") as f:
        f.write(p.stdout)
    return out
