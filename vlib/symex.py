"""E2: symbolic evaluator for a stated straight-line subset of Rust, over the JSON tree from `vx`.

Subset: let / let mut (ident, tuple, struct patterns), assignment and compound assignment to
locals / fields / constant array indices, arithmetic, comparison and boolean operators, field
access, struct / array / tuple literals, if / else, `if let`, match on Option / enum / struct
patterns (merged as ITE), early return, `for i in <const>..<const>` (fully unrolled, so still
complete), closures called directly, assert!/debug_assert!/panic!/expect (divergence), calls
resolved through the glam operation table below, through a callee contract, or by inlining
another repo function.  Anything else raises Unsupported -> the check exits 2 (undecided).

f64 is interpreted as Real (assumption A-REAL), big integers as Int; i64/usize arithmetic gets
overflow obligations.
"""
from fractions import Fraction
from . import terms as tm
from .terms import T, Const, Var, And, Or, Not, Ite, Eq, Lt, Le, Ge, Gt, Implies, TRUE, FALSE


class Unsupported(Exception):
    pass


# ------------------------------------------------------------------ values
class Vec:
    def __init__(self, comps): self.c = list(comps)
    @property
    def n(self): return len(self.c)
    def __repr__(self): return "Vec%d%r" % (self.n, self.c)


class Mat:
    def __init__(self, cols): self.cols = list(cols)


class Struct:
    def __init__(self, name, fields): self.name, self.f = name, dict(fields)
    def __repr__(self): return "%s%r" % (self.name, self.f)


class Arr:
    def __init__(self, elems, length=None): self.e, self.length = list(elems), length


class Tup:
    def __init__(self, elems): self.e = list(elems)


class Opt:
    """Option with symbolic tag. val is meaningful when `some` holds."""
    def __init__(self, some, val): self.some, self.val = tm.lift(some), val


class Enum:
    """C-like enum with symbolic tag (Int index into variants)."""
    def __init__(self, name, variants, tag): self.name, self.variants, self.tag = name, variants, tag
    def is_(self, v): return Eq(self.tag, Const(self.variants.index(v), "Int"))


class Closure:
    def __init__(self, node, env): self.node, self.env = node, env


class IterV:
    """An opaque iterator handed in from outside (e.g. the nearest-neighbour iterator): only how much of it was consumed and which
    adapters were stacked on it is tracked. `elems(k)` names its k-th item."""
    def __init__(self, name, elem, consumed=0, adapters=()):
        self.name, self.elem, self.consumed, self.adapters = name, elem, consumed, tuple(adapters)


class Variant:
    """A value of an enum with payloads whose variant is known (e.g. RTreeNode::Parent(data) / RTreeNode::Leaf(t)): the units are run once
    per variant, so the tag is concrete."""
    def __init__(self, enum, variant, payload): self.enum, self.variant, self.payload = enum, variant, list(payload)


class RangeV:
    """A `lo..hi` / `lo..=hi` value with integer bounds (possibly case distinctions of literals)."""
    def __init__(self, lo, hi, inclusive): self.lo, self.hi, self.inclusive = lo, hi, inclusive


def const_leaves(t):
    """Integer literals an Ite-tree of literals can evaluate to; None if the term is anything else."""
    if tm.is_const(t): return {t.args[0]}
    if isinstance(t, T) and t.op == "ite":
        a, b = const_leaves(t.args[1]), const_leaves(t.args[2])
        return None if a is None or b is None else a | b
    return None


class SymArr:
    """Array/slice indexed by symbolic terms: equal index terms give the same element, different index terms give
    unrelated elements (sound: nothing is assumed about them)."""
    def __init__(self, factory, length=None):
        self.factory, self.memo, self.length = factory, {}, length

    def select(self, interp, env, node, i):
        if self.length is not None:
            interp.panic_if(env, node, And(Le(Const(0, "Int"), i), Lt(i, self.length)), "index")
        if i not in self.memo: self.memo[i] = self.factory(i)
        return self.memo[i]


class Res:
    """Result<(),()>-like: ok tag."""
    def __init__(self, ok, val=None, err=None): self.ok, self.val, self.err = tm.lift(ok), val, err


UNIT = Tup([])


class Havoc:
    """Value of an expression outside the subset, in TOLERANT mode: nothing is known about it. It is turned into a fresh
    unconstrained variable of the sort the context demands (bool in a condition, the other operand's sort in arithmetic);
    any other use is Unsupported again. Sound for proofs (the obligation then holds for every value); a refutation that
    involves a havoc'd value may be spurious and is only reported when it replays on the real code (runner.from_smt)."""
    def __init__(self, ctx, name):
        self.ctx, self.name, self.as_ = ctx, name, {}
        ctx.havocs.append(name)

    def coerce(self, sort, mty=None):
        if sort not in self.as_:
            self.as_[sort] = self.ctx.fresh("havoc_" + self.name, sort, mty)
        return self.as_[sort]


class StopExecution(Exception):
    """Raised by a contract hook to end a prefix run at a designated call."""
    def __init__(self, payload=None): self.payload = payload


def unknown_of_type(ctx, ty, name):
    """An unconstrained value of a Rust type given as text (for loop-carried locals of a slice): scalars, Option, tuples, fixed arrays, DVec3;
    anything else is a Havoc value."""
    ty = ty.replace(" ", "")
    if ty in ("f64", "f32"): return ctx.fresh("any_" + name, "Real", "f64")
    if ty in ("usize", "u64", "u32", "i64", "i32", "isize"): return ctx.fresh("any_" + name, "Int", ty)
    if ty == "bool": return ctx.fresh("any_" + name, "Bool")
    if ty == "DVec3": return Vec([ctx.fresh("any_%s_%s" % (name, c), "Real", "f64") for c in "xyz"])
    if ty.startswith("Option<") and ty.endswith(">"):
        return Opt(ctx.fresh("any_%s_some" % name, "Bool"), unknown_of_type(ctx, ty[7:-1], name + "_val"))
    if ty.startswith("[") and ty.endswith("]") and ";" in ty:
        inner, n_ = ty[1:-1].rsplit(";", 1)
        if n_.isdigit(): return Arr([unknown_of_type(ctx, inner, "%s_%d" % (name, i)) for i in range(int(n_))])
    if ty.startswith("(") and ty.endswith(")"):
        parts, depth, cur = [], 0, ""
        for ch in ty[1:-1]:
            if ch in "<([": depth += 1
            if ch in ">)]": depth -= 1
            if ch == "," and depth == 0: parts.append(cur); cur = ""
            else: cur += ch
        if cur: parts.append(cur)
        return Tup([unknown_of_type(ctx, q, "%s_%d" % (name, i)) for i, q in enumerate(parts)])
    return Havoc(ctx, name)


def fresh_like(ctx, v, name):
    """A fresh unconstrained value of the same shape (for variables a skipped statement may have mutated)."""
    if isinstance(v, T): return ctx.fresh("havoc_" + name, v.sort, getattr(v, "mty", None))
    if isinstance(v, Vec): return Vec([fresh_like(ctx, c, name) for c in v.c])
    if isinstance(v, Struct): return Struct(v.name, {k: fresh_like(ctx, x, name + "_" + k) for k, x in v.f.items()})
    if isinstance(v, Tup): return Tup([fresh_like(ctx, x, name) for x in v.e])
    if isinstance(v, Arr): return Arr([fresh_like(ctx, x, name) for x in v.e], v.length)
    if isinstance(v, Opt): return Opt(ctx.fresh("havoc_" + name + "_some", "Bool"), None if v.val is None else fresh_like(ctx, v.val, name))
    if isinstance(v, Enum): return Enum(v.name, v.variants, ctx.fresh("havoc_" + name, "Int"))
    return Havoc(ctx, name)


def merge(c, a, b):
    if a is b: return a
    if isinstance(a, T) and isinstance(b, T): return Ite(c, a, b)
    if isinstance(a, Vec) and isinstance(b, Vec) and a.n == b.n: return Vec([Ite(c, x, y) for x, y in zip(a.c, b.c)])
    if isinstance(a, Struct) and isinstance(b, Struct) and a.name == b.name:
        return Struct(a.name, {k: merge(c, a.f[k], b.f[k]) for k in a.f})
    if isinstance(a, Arr) and isinstance(b, Arr) and len(a.e) == len(b.e):
        return Arr([merge(c, x, y) for x, y in zip(a.e, b.e)], a.length)
    if isinstance(a, Tup) and isinstance(b, Tup) and len(a.e) == len(b.e):
        return Tup([merge(c, x, y) for x, y in zip(a.e, b.e)])
    if isinstance(a, Opt) and isinstance(b, Opt):
        if a.val is None: v = b.val
        elif b.val is None: v = a.val
        else: v = merge(c, a.val, b.val)
        return Opt(Ite(c, a.some, b.some), v)
    if isinstance(a, Enum) and isinstance(b, Enum) and a.name == b.name:
        return Enum(a.name, a.variants, Ite(c, a.tag, b.tag))
    if isinstance(a, Res) and isinstance(b, Res): return Res(Ite(c, a.ok, b.ok))
    if isinstance(a, Mat) and isinstance(b, Mat): return Mat([merge(c, x, y) for x, y in zip(a.cols, b.cols)])
    if isinstance(a, RangeV) and isinstance(b, RangeV) and a.inclusive == b.inclusive:
        return RangeV(Ite(c, a.lo, b.lo), Ite(c, a.hi, b.hi), a.inclusive)
    if a is None: return b
    if b is None: return a
    if isinstance(a, Havoc) or isinstance(b, Havoc):
        h = a if isinstance(a, Havoc) else b
        o = b if h is a else a
        if isinstance(o, T): return Ite(c, a.coerce(o.sort), o) if h is a else Ite(c, o, b.coerce(o.sort))
        return h
    if isinstance(a, Closure) and isinstance(b, Closure) and a.node is b.node: return a
    if isinstance(a, SymArr) and a is b: return a
    raise Unsupported("merge of %s and %s" % (type(a).__name__, type(b).__name__))


def det(cols):
    """Determinant of square matrix given as list of columns (each list of terms), Laplace on first column."""
    n = len(cols)
    if n == 1: return cols[0][0]
    if n == 2: return cols[0][0] * cols[1][1] - cols[1][0] * cols[0][1]
    r = None
    for i in range(n):
        minor = [[col[k] for k in range(n) if k != i] for col in cols[1:]]
        term = cols[0][i] * det(minor)
        if r is None: r = term
        elif i % 2 == 0: r = r + term
        else: r = r - term
    return r


# ------------------------------------------------------------------ context
class Obl:
    def __init__(self, kind, site, cond, pc):
        self.kind, self.site, self.cond, self.pc = kind, site, cond, pc


class Ctx:
    """Collects fresh variables, side assumptions and side obligations of one symbolic run."""
    def __init__(self, resolver=None, contracts=None, file=None):
        self.n = 0
        self.assume = []     # facts about fresh vars (sqrt definitions, callee ensures)
        self.obls = []       # definedness / overflow / index / callee-requires obligations
        self.ok = []         # (pc => cond) for every passed assertion: "no panic so far"
        self.panics = []     # Obl for each panic site
        self.resolver = resolver or (lambda name: None)
        self.contracts = contracts or {}
        self.inlined = []
        self.file = file
        self.havocs = []     # names of values replaced by unconstrained ones (tolerant mode)
        self.skipped = []    # byte spans of statements skipped in tolerant mode
        self.mutable = set() # locals that Rust allows a statement to mutate: `let mut x`, `mut x: T` and `x: &mut T` (no interior mutability in this crate)

    def fresh(self, base, sort, mty=None):
        self.n += 1
        return Var("%s!%d" % (base, self.n), sort, mty)


I64_MIN, I64_MAX = -(2 ** 63), 2 ** 63 - 1
USIZE_MAX = 2 ** 64 - 1


class Env:
    def __init__(self, ctx, vars=None, pc=TRUE, self_ty=None):
        self.ctx, self.vars, self.pc, self.self_ty = ctx, dict(vars or {}), pc, self_ty
        self.returns = []
        self.conts = []
        self.breaks = []

    def fork(self, pc):
        e = Env(self.ctx, self.vars, pc, self.self_ty)
        return e


def site(node):
    return "@%d-%d" % tuple(node["sp"])


class Interp:
    def __init__(self, ctx, consts=None):
        self.ctx = ctx
        self.consts = consts or {}
        self.tolerant = False
        self.last_self = None
        self.local_fns = {}

    # ---- obligations
    def oblige(self, env, kind, node, cond):
        if cond is TRUE: return
        self.ctx.obls.append(Obl(kind, site(node), cond, env.pc))

    def panic_if(self, env, node, cond_ok, what):
        """Execution diverges unless cond_ok."""
        self.ctx.panics.append(Obl("panic:" + what, site(node), cond_ok, env.pc))
        self.ctx.ok.append(Implies(env.pc, cond_ok))
        env.pc = And(env.pc, cond_ok)

    # ---- numeric helpers with machine-type bookkeeping
    def arith(self, env, node, op, a, b):
        if isinstance(a, T) and isinstance(b, T):
            if a.sort == "Bool": raise Unsupported("arith on bool")
            mty = a.mty or b.mty
            if a.sort != b.sort:
                raise Unsupported("mixed sorts in arithmetic at %s" % site(node))
            if op == "+": r = a + b
            elif op == "-": r = a - b
            elif op == "*": r = a * b
            elif op == "/":
                if a.sort == "Real":
                    self.oblige(env, "div-nonzero", node, tm.Ne(b, Const(0, "Real")))
                    r = a / b
                elif tm.is_const(a) and tm.is_const(b) and b.args[0] > 0 and a.args[0] >= 0:
                    r = Const(a.args[0] // b.args[0], "Int")      # truncating division of non-negative literals
                else:
                    raise Unsupported("integer division")
            elif op == "%":
                if tm.is_const(a) and tm.is_const(b): r = Const(a.args[0] % b.args[0], "Int")
                else: raise Unsupported("symbolic %")
            else: raise Unsupported("op " + op)
            if mty in ("i64", "usize") and not tm.is_const(r):
                lo, hi = (I64_MIN, I64_MAX) if mty == "i64" else (0, USIZE_MAX)
                self.oblige(env, "overflow-" + mty, node, And(Le(Const(lo, "Int"), r), Le(r, Const(hi, "Int"))))
            if mty and not tm.is_const(r): r = tm.mk(r.op, r.args, r.sort, mty)
            return r
        if isinstance(a, Vec) and isinstance(b, Vec):
            if a.n != b.n: raise Unsupported("vec size")
            return Vec([self.arith(env, node, op, x, y) for x, y in zip(a.c, b.c)])
        if isinstance(a, Vec) and isinstance(b, T):
            if op not in ("*", "/"): raise Unsupported("vec %s scalar" % op)
            return Vec([self.arith(env, node, op, x, b) for x in a.c])
        if isinstance(a, T) and isinstance(b, Vec):
            if op not in ("*", "/"): raise Unsupported("scalar %s vec" % op)
            return Vec([self.arith(env, node, op, a, y) for y in b.c])
        raise Unsupported("arith %s on %s,%s" % (op, type(a).__name__, type(b).__name__))

    def sqrt(self, env, node, x):
        self.oblige(env, "sqrt-nonneg", node, Ge(x, Const(0, "Real")))
        if tm.is_const(x):
            v = x.args[0]
            import math
            from fractions import Fraction as F
            n, d = v.numerator, v.denominator
            rn, rd = math.isqrt(n), math.isqrt(d)
            if rn * rn == n and rd * rd == d: return Const(F(rn, rd), "Real")
        # one definition per distinct argument term
        key = ("sqrt", x)
        memo = self.ctx.__dict__.setdefault("_sqrt", {})
        if key in memo: return memo[key]
        s = self.ctx.fresh("sqrt", "Real")
        self.ctx.assume.append(Implies(Ge(x, Const(0, "Real")), And(Ge(s, Const(0, "Real")), Eq(s * s, x))))
        memo[key] = s
        return s

    def signum(self, env, node, x):
        # f64::signum: 1.0 for +0.0 and positives, -1.0 for -0.0 and negatives. Over the reals the
        # value at 0 is either of the two.
        z = self.ctx.fresh("sgn0", "Real")
        self.ctx.assume.append(Or(Eq(z, Const(1, "Real")), Eq(z, Const(-1, "Real"))))
        return Ite(Gt(x, Const(0, "Real")), Const(1, "Real"), Ite(Lt(x, Const(0, "Real")), Const(-1, "Real"), z))

    # ---- expression evaluation
    def ev(self, env, n):
        k = n["k"]
        m = getattr(self, "ev_" + k, None)
        if m is None: raise Unsupported("node kind %s at %s" % (k, site(n)))
        return m(env, n)

    def ev_unsupported(self, env, n): raise Unsupported(n["what"])
    def ev_paren(self, env, n): return self.ev(env, n["e"])
    def ev_empty(self, env, n): return UNIT

    def ev_lit(self, env, n):
        if n["ty"] == "int":
            suf = n.get("suffix") or ""
            if suf.startswith("f"): return Const(Fraction(n["v"]), "Real", "f64")
            return Const(int(n["v"]), "Int", suf or None)
        if n["ty"] == "float": return Const(Fraction(n["v"]), "Real", "f64")
        if n["ty"] == "bool": return Const(bool(n["v"]))
        if n["ty"] == "str": return ("str", n["v"])
        raise Unsupported("literal")

    VEC_CONSTS = {"ZERO": (0, 0, 0), "ONE": (1, 1, 1), "X": (1, 0, 0), "Y": (0, 1, 0), "Z": (0, 0, 1),
                  "NEG_X": (-1, 0, 0), "NEG_Y": (0, -1, 0), "NEG_Z": (0, 0, -1), "NEG_ONE": (-1, -1, -1)}

    def ev_path(self, env, n):
        segs = n["segs"]
        if len(segs) == 1:
            name = segs[0]
            if name in env.vars: return env.vars[name]
            if name in self.consts: return self.consts[name]
            if name == "None": return Opt(FALSE, None)
            if name == "PhantomData": return UNIT
            raise Unsupported("unbound name %s at %s" % (name, site(n)))
        if segs[0] in ("DVec3", "DVec4") and segs[1] in self.VEC_CONSTS:
            c = self.VEC_CONSTS[segs[1]]
            if segs[0] == "DVec4": c = c + (c[0] if segs[1] in ("ZERO", "ONE", "NEG_ONE") else 0,)
            return Vec([Const(x, "Real") for x in c])
        key = "::".join(segs)
        if len(segs) == 2 and segs[0] == "Self" and env.self_ty and key not in self.consts and (env.self_ty + "::" + segs[1]) in self.consts:
            key = env.self_ty + "::" + segs[1]
        if key in self.consts:
            cv = self.consts[key]
            if isinstance(cv, tuple) and len(cv) == 3 and cv[0] == "constexpr":
                # an associated const with a non-literal initialiser: evaluate the initialiser expression (it reads no local)
                return self.ev(env, cv[1])
            return cv
        if len(segs) == 2 and segs[0] in self.enums and segs[1] in self.enums[segs[0]]:
            vs = self.enums[segs[0]]
            return Enum(segs[0], vs, Const(vs.index(segs[1]), "Int"))
        if len(segs) == 2 and segs[0] == "Self" and segs[1] in self.enums.get(env.self_ty, []):
            vs = self.enums[env.self_ty]
            return Enum(env.self_ty, vs, Const(vs.index(segs[1]), "Int"))
        if segs[-1] == "None": return Opt(FALSE, None)
        if len(segs) >= 2 and segs[-2] in ("Sign", "Ordering") and segs[-1] in self.SIGN_NAMES:
            return ("signconst", segs[-1])
        if len(segs) == 2 and segs[0] == "f64" and segs[1] in self.F64_CONSTS:
            return Const(self.F64_CONSTS[segs[1]], "Real")
        raise Unsupported("path %s at %s" % (key, site(n)))

    SIGN_NAMES = ("Less", "Equal", "Greater", "Minus", "NoSign", "Plus")
    # exactly representable f64 constants (A-REAL reads them as the rationals they denote)
    F64_CONSTS = {"EPSILON": tm.Fraction(1, 2 ** 52), "MIN_POSITIVE": tm.Fraction(1, 2 ** 1022), "MAX": tm.Fraction((2 ** 53 - 1) * 2 ** 971)}

    @staticmethod
    def sign_cond(x, name):
        """A-BIG / std: the Ordering of x against 0 (Sign of a big integer) as a formula."""
        z = Const(0, x.sort)
        return {"Less": Lt(x, z), "Equal": Eq(x, z), "Greater": Gt(x, z), "Minus": Lt(x, z), "NoSign": Eq(x, z), "Plus": Gt(x, z)}[name]

    enums = {"Dimensionality": ["OneD", "TwoD", "ThreeD"]}

    def ev_bin(self, env, n):
        op = n["op"]
        B = lambda v: v.coerce("Bool") if isinstance(v, Havoc) else v
        if op == "&&":
            a = B(self.ev(env, n["l"]))
            sub = env.fork(And(env.pc, a))
            b = B(self.ev(sub, n["r"]))
            return And(a, b)
        if op == "||":
            a = B(self.ev(env, n["l"]))
            sub = env.fork(And(env.pc, Not(a)))
            b = B(self.ev(sub, n["r"]))
            return Or(a, b)
        a, b = self.ev(env, n["l"]), self.ev(env, n["r"])
        if isinstance(a, Havoc) and isinstance(b, T): a = a.coerce(b.sort, getattr(b, "mty", None))
        if isinstance(b, Havoc) and isinstance(a, T): b = b.coerce(a.sort, getattr(a, "mty", None))
        if op in ("+", "-", "*", "/", "%"): return self.arith(env, n, op, a, b)
        if op in ("==", "!=", "<", "<=", ">", ">="):
            if isinstance(a, Enum) and isinstance(b, Enum):
                r = Eq(a.tag, b.tag)
                return r if op == "==" else Not(r)
            for u_, w_ in ((a, b), (b, a)):
                if isinstance(u_, tuple) and u_[0] == "sign" and isinstance(w_, tuple) and w_[0] == "signconst" and op in ("==", "!="):
                    r = self.sign_cond(u_[1], w_[1])
                    return r if op == "==" else Not(r)
            if not (isinstance(a, T) and isinstance(b, T)): raise Unsupported("compare non-scalars at %s" % site(n))
            return {"==": Eq, "!=": tm.Ne, "<": Lt, "<=": Le, ">": Gt, ">=": Ge}[op](a, b)
        raise Unsupported("binary " + op)

    def ev_un(self, env, n):
        v = self.ev(env, n["e"])
        if n["op"] == "*": return v
        if n["op"] == "!":
            if isinstance(v, Havoc): v = v.coerce("Bool")
            if isinstance(v, T) and v.sort == "Bool": return Not(v)
            raise Unsupported("! on non-bool")
        if n["op"] == "-":
            if isinstance(v, T): return -v
            if isinstance(v, Vec): return Vec([-x for x in v.c])
        raise Unsupported("unary")

    def ev_ref(self, env, n):
        if n["mut"]:
            if not self.tolerant: raise Unsupported("&mut expression at %s" % site(n))
            # tolerant mode: the alias reads the place's current value; whatever is written through it later is not tracked, so the place's
            # root variable is made unknown right away (sound: it may hold anything afterwards)
            v = self.ev(env, n["e"])
            for r_ in self.mutated_roots({"k": "x", "a": n}):
                if r_ in env.vars and r_ in self.ctx.mutable: env.vars[r_] = fresh_like(self.ctx, env.vars[r_], r_)
            return v
        return self.ev(env, n["e"])

    def ev_cast(self, env, n):
        v = self.ev(env, n["e"])
        ty = n["ty"].replace(" ", "")
        if ty == "f64" and isinstance(v, T):
            return tm.ToReal(v)
        if ty in ("usize", "i64", "u64", "i32", "u32") and isinstance(v, T) and v.sort == "Int":
            return v          # machine-width wrap-around of integer casts is NOT modelled (stated where it matters)
        if ty in ("usize", "i64", "u64", "i32", "u32") and isinstance(v, T) and v.sort == "Real" and v.op == "to_real":
            return v.args[0]  # cast of an integer-valued real produced by floor()/ceil()/`as f64` back to an integer
        raise Unsupported("cast to " + ty)

    def ev_field(self, env, n):
        v = self.ev(env, n["e"])
        name = n["name"]
        if isinstance(v, Vec):
            return v.c["xyzw".index(name)]
        if isinstance(v, Struct):
            if name not in v.f: raise Unsupported("no field %s in %s" % (name, v.name))
            return v.f[name]
        if isinstance(v, Tup): return v.e[int(name)]
        raise Unsupported("field %s of %s at %s" % (name, type(v).__name__, site(n)))

    def const_index(self, env, n, arr, i):
        if not (isinstance(i, T) and tm.is_const(i)): raise Unsupported("symbolic index at %s" % site(n))
        i = i.args[0]
        if isinstance(arr, Vec): return i
        if arr.length is not None:
            self.panic_if(env, n, Lt(Const(i, "Int"), arr.length), "index")
        elif i >= len(arr.e):
            self.panic_if(env, n, FALSE, "index")
        if i >= len(arr.e): raise Unsupported("index beyond modelled prefix")
        return i

    def ev_index(self, env, n):
        a = self.ev(env, n["e"])
        i = self.ev(env, n["i"])
        if isinstance(a, Arr):
            if isinstance(i, T) and not tm.is_const(i) and hasattr(a, "select"):
                return a.select(self, env, n, i)
            return a.e[self.const_index(env, n, a, i)]
        if isinstance(a, Vec): return a.c[self.const_index(env, n, a, i)]
        if hasattr(a, "select"): return a.select(self, env, n, i)
        raise Unsupported("index into %s" % type(a).__name__)

    def ev_tuple(self, env, n): return Tup([self.ev(env, x) for x in n["elems"]])
    def ev_array(self, env, n): return Arr([self.ev(env, x) for x in n["elems"]])

    def ev_repeat(self, env, n):
        c = self.ev(env, n["n"])
        if not tm.is_const(c): raise Unsupported("repeat len")
        v = self.ev(env, n["e"])
        return Arr([v] * c.args[0])

    def ev_struct(self, env, n):
        name = n["path"][-1]
        if name == "Self": name = env.self_ty
        if n["rest"] is not None: raise Unsupported("struct update syntax")
        fields = {f["name"]: self.ev(env, f["e"]) for f in n["fields"]}
        if name in ("DVec3", "DVec4", "DVec2", "UVec3", "IVec3"):
            return Vec([fields[c] for c in "xyzw"[: {"DVec2": 2, "DVec3": 3, "DVec4": 4, "UVec3": 3, "IVec3": 3}[name]]])
        return Struct(name, fields)

    def ev_block(self, env, n):
        return self.exec_block(env, n)

    def ev_unsafe(self, env, n): raise Unsupported("unsafe block")

    def ev_if(self, env, n):
        cnode = n["c"]
        binds = {}
        if cnode["k"] == "letcond":
            scrut = self.ev(env, cnode["e"])
            c = self.match_pat(env, cnode["pat"], scrut, binds)
        else:
            c = self.ev(env, cnode)
            if isinstance(c, Havoc): c = c.coerce("Bool")
            if not (isinstance(c, T) and c.sort == "Bool"): raise Unsupported("if cond")
        ea = env.fork(And(env.pc, c)); ea.vars.update(binds)
        va = self.exec_block(ea, n["then"])
        eb = env.fork(And(env.pc, Not(c)))
        vb = self.ev(eb, n["else"]) if n["else"] is not None else UNIT
        for b in binds: ea.vars.pop(b, None) if b not in env.vars else ea.vars.__setitem__(b, env.vars[b])
        return self.join(env, c, ea, va, eb, vb)

    def join(self, env, c, ea, va, eb, vb):
        env.returns += ea.returns + eb.returns
        env.conts += ea.conts + eb.conts
        env.breaks += ea.breaks + eb.breaks
        if ea.pc is FALSE and eb.pc is FALSE:
            env.pc = FALSE
            return va if va is not None else vb
        if ea.pc is FALSE:
            env.vars, env.pc = eb.vars, eb.pc
            return vb
        if eb.pc is FALSE:
            env.vars, env.pc = ea.vars, ea.pc
            return va
        newvars = {}
        for k in env.vars:
            if k in ea.vars and k in eb.vars:
                newvars[k] = merge(c, ea.vars[k], eb.vars[k])
        env.vars = newvars
        env.pc = Or(ea.pc, eb.pc)
        if va is None or vb is None: return None
        return merge(c, va, vb)

    def ev_match(self, env, n):
        scrut = self.ev(env, n["e"])
        # build nested ifs: arm i taken iff its pattern(+guard) matches and no earlier arm matched
        remaining = env
        results = []  # (cond, env, val)
        notprev = TRUE
        for arm in n["arms"]:
            binds = {}
            c = self.match_pat(env, arm["pat"], scrut, binds)
            if c is FALSE: continue
            if arm["guard"] is not None:
                ge = env.fork(And(env.pc, notprev, c)); ge.vars.update(binds)
                g = self.ev(ge, arm["guard"])
                c = And(c, g)
            take = And(notprev, c)
            ae = env.fork(And(env.pc, take)); ae.vars.update(binds)
            v = self.ev(ae, arm["body"])
            for b in binds:
                if b in env.vars: ae.vars[b] = env.vars[b]
                else: ae.vars.pop(b, None)
            results.append((take, ae, v))
            notprev = And(notprev, Not(c))
            if notprev is FALSE: break
        # non-exhaustive symbolic match cannot happen in compiled Rust; fold from the last arm back
        take, ae, v = results[-1]
        cur_env, cur_val = ae, v
        for take, ae, v in reversed(results[:-1]):
            holder = env.fork(env.pc)
            val = self.join(holder, take, ae, v, cur_env, cur_val)
            cur_env, cur_val = holder, val
        env.vars, env.pc = cur_env.vars, cur_env.pc
        env.returns += cur_env.returns
        env.conts += cur_env.conts
        env.breaks += cur_env.breaks
        return cur_val

    # ---- patterns: returns match condition, fills binds
    def match_pat(self, env, p, v, binds):
        k = p["k"]
        if k == "pwild": return TRUE
        if k == "pident":
            name = p["name"]
            if name == "None" and isinstance(v, Opt): return Not(v.some)
            binds[name] = v
            if p.get("sub"): return self.match_pat(env, p["sub"], v, binds)
            return TRUE
        if k == "pref": return self.match_pat(env, p["pat"], v, binds)
        if k == "ptype": return self.match_pat(env, p["pat"], v, binds)
        if k == "ptuple":
            if not isinstance(v, Tup) or len(v.e) != len(p["elems"]): raise Unsupported("tuple pattern")
            return And(*[self.match_pat(env, q, x, binds) for q, x in zip(p["elems"], v.e)])
        if k == "ptstruct":
            name = p["path"][-1]
            if name == "Some":
                if not isinstance(v, Opt): raise Unsupported("Some pattern on non-Option")
                if v.val is None: return FALSE
                return And(v.some, self.match_pat(env, p["elems"][0], v.val, binds))
            if name in ("Ok", "Err") and isinstance(v, Res):
                return v.ok if name == "Ok" else Not(v.ok)
            if isinstance(v, Variant):
                if name != v.variant: return FALSE
                if len(p["elems"]) != len(v.payload): raise Unsupported("variant payload arity")
                return And(*[self.match_pat(env, q, x, binds) for q, x in zip(p["elems"], v.payload)])
            raise Unsupported("tuple-struct pattern " + name)
        if k == "ppath":
            name = p["path"][-1]
            if name == "None":
                if not isinstance(v, Opt): raise Unsupported("None pattern on non-Option")
                return Not(v.some)
            if isinstance(v, Enum):
                if name not in v.variants: raise Unsupported("variant " + name)
                return v.is_(name)
            if isinstance(v, tuple) and v[0] == "sign":
                # A-BIG: sign() of the big-integer back end (malachite: Ordering, num_bigint: Sign)
                if name not in self.SIGN_NAMES: raise Unsupported("sign pattern " + name)
                return self.sign_cond(v[1], name)
            raise Unsupported("path pattern " + name)
        if k == "por":
            conds = []
            for q in p["cases"]:
                b2 = {}
                conds.append(self.match_pat(env, q, v, b2))
                if b2: raise Unsupported("bindings in or-pattern")
            return Or(*conds)
        if k == "pstruct":
            if not isinstance(v, Struct): raise Unsupported("struct pattern on %s" % type(v).__name__)
            cs = []
            for f in p["fields"]:
                if f["name"] not in v.f: raise Unsupported("field " + f["name"])
                cs.append(self.match_pat(env, f["pat"], v.f[f["name"]], binds))
            return And(*cs)
        if k == "plit":
            lit = self.ev(env, p["e"])
            return Eq(v, lit)
        raise Unsupported("pattern " + k)

    def bind_pat(self, env, p, v):
        binds = {}
        c = self.match_pat(env, p, v, binds)
        if c is not TRUE: raise Unsupported("refutable let pattern")
        env.vars.update(binds)

    # ---- statements
    def exec_block(self, env, b):
        val = UNIT
        saved = set(env.vars)
        stmts = b["stmts"]
        for i, s in enumerate(stmts):
            if env.pc is FALSE: break
            val = self.exec_stmt(env, s, last=(i == len(stmts) - 1))
        return val

    def attr_enabled(self, attrs):
        """cfg attributes on statements are evaluated against self.features (C11)."""
        for a in attrs or []:
            if a["path"] == "cfg":
                if not self.eval_cfg(a["text"]): return False
        return True

    features = {"ibig"}

    def eval_cfg(self, text):
        import re
        inner = text[text.index("cfg") + 3:].strip()
        inner = inner.strip("[]() \t")
        toks = re.findall(r'feature\s*=\s*"([^"]+)"|(any|all|not)|([(),])', text[text.index("cfg") + 3:])
        # tiny recursive-descent over: pred := feature="x" | any(p,*) | all(p,*) | not(p)
        seq = []
        for f, kw, pu in toks:
            seq.append(("f", f) if f else (("k", kw) if kw else ("p", pu)))
        pos = [0]

        def pred():
            t = seq[pos[0]]; pos[0] += 1
            if t[0] == "f": return t[1] in self.features
            if t[0] == "k":
                assert seq[pos[0]] == ("p", "("); pos[0] += 1
                vals = []
                while seq[pos[0]] != ("p", ")"):
                    if seq[pos[0]] == ("p", ","): pos[0] += 1; continue
                    vals.append(pred())
                pos[0] += 1
                return {"any": any, "all": all, "not": lambda v: not v[0]}[t[1]](vals)
            raise Unsupported("cfg syntax")
        # outer parenthesis of cfg(...)
        assert seq[0] == ("p", "("); pos[0] = 1
        return pred()

    TOLERATED = (Unsupported, AttributeError, TypeError, KeyError, IndexError)

    def snapshot(self, env):
        c = self.ctx
        return (dict(env.vars), env.pc, len(env.returns), len(env.conts), len(c.assume), len(c.obls), len(c.ok), len(c.panics), len(env.breaks))

    def restore(self, env, snap):
        c = self.ctx
        env.vars, env.pc = dict(snap[0]), snap[1]
        del env.returns[snap[2]:]; del env.conts[snap[3]:]; del env.breaks[snap[8]:]
        del c.assume[snap[4]:]; del c.obls[snap[5]:]; del c.ok[snap[6]:]; del c.panics[snap[7]:]

    def mutated_roots(self, node):
        """Variables a statement can mutate: assignment targets, `&mut x..` borrows, method-call receivers (conservative)."""
        from . import extract
        roots = set()
        def root(e):
            while isinstance(e, dict):
                k = e.get("k")
                if k == "path": return e["segs"][0] if len(e["segs"]) == 1 else None
                if k in ("field", "index", "paren", "ref", "un"): e = e.get("e")
                elif k == "mcall": e = e.get("recv")
                else: return None
            return None
        for m in extract.find_nodes(node, lambda x: x.get("k") in ("assign", "opassign")): roots.add(root(m["l"]))
        for m in extract.find_nodes(node, lambda x: x.get("k") == "ref" and x.get("mut")): roots.add(root(m["e"]))
        for m in extract.find_nodes(node, lambda x: x.get("k") == "mcall"): roots.add(root(m["recv"]))
        for m in extract.find_nodes(node, lambda x: x.get("k") == "macro"):
            # vec!/assert!/.. take expressions (parsed by vx, so nested assignments are seen above); any other macro is an unknown token tree
            if m["name"] not in ("vec", "assert", "assert_eq", "assert_ne", "debug_assert", "debug_assert_eq", "debug_assert_ne", "panic", "unreachable",
                                 "println", "eprintln", "format", "write", "writeln", "dbg", "flatten", "todo", "unimplemented", "matches"):
                roots.add("*")
        roots.discard(None)
        return roots

    def exec_stmt(self, env, s, last=False):
        if not self.tolerant: return self.exec_stmt_strict(env, s, last)
        snap = self.snapshot(env)
        try:
            return self.exec_stmt_strict(env, s, last)
        except StopExecution:
            raise
        except self.TOLERATED as ex:
            self.restore(env, snap)
            from . import extract
            k = s["k"]
            if k == "let":
                names = [q["name"] for q in extract.find_nodes(s["pat"], lambda x: x.get("k") == "pident")]
                roots = self.mutated_roots(s["init"]) if s.get("init") is not None else set()
                self.note_mutable(s["pat"])
                for nm in names: env.vars[nm] = Havoc(self.ctx, nm)
            else:
                roots = self.mutated_roots(s)
            if "*" in roots: roots = set(env.vars)
            for r_ in roots:
                # only a local declared `mut` (or a `&mut` parameter) can be written by a statement - Rust's borrow rules
                if r_ in env.vars and r_ in self.ctx.mutable and not isinstance(env.vars[r_], (Closure, SymArr)):
                    env.vars[r_] = fresh_like(self.ctx, env.vars[r_], r_)
            self.ctx.havocs.append("stmt@%d-%d: %s" % (s["sp"][0], s["sp"][1], str(ex)[:80]))
            self.ctx.skipped.append((s["sp"][0], s["sp"][1]))
            return UNIT

    def note_mutable(self, pat):
        from . import extract
        for q in extract.find_nodes(pat, lambda x: x.get("k") == "pident" and x.get("mut")): self.ctx.mutable.add(q["name"])

    def note_params(self, fn):
        for p in fn["sig"]["params"]:
            if p["k"] == "self":
                if p.get("mut"): self.ctx.mutable.add("self")
            else:
                self.note_mutable(p["pat"])
                if p.get("ty", "").replace(" ", "").startswith("&mut"):
                    from . import extract
                    for q in extract.find_nodes(p["pat"], lambda x: x.get("k") == "pident"): self.ctx.mutable.add(q["name"])

    def exec_stmt_strict(self, env, s, last=False):
        k = s["k"]
        if k == "let":
            if not self.attr_enabled(s.get("attrs")): return UNIT
            if s.get("else") is not None: raise Unsupported("let-else")
            if s["init"] is None:
                # declared, assigned later
                p = s["pat"]
                while p["k"] == "ptype": p = p["pat"]
                if p["k"] != "pident": raise Unsupported("uninit pattern")
                self.ctx.mutable.add(p["name"])
                env.vars[p["name"]] = None
                return UNIT
            self.note_mutable(s["pat"])
            v = self.ev(env, s["init"])
            self.bind_pat(env, s["pat"], v)
            return UNIT
        if k == "expr":
            if not self.attr_enabled(s.get("attrs")): return UNIT
            v = self.ev(env, s["e"])
            return UNIT if s["semi"] else v
        if k == "item":
            it_ = s.get("item") or {}
            if it_.get("k") == "fn":      # a nested fn item: callable by its name inside this body
                self.local_fns[it_["path"].split("::")[-1]] = it_
            return UNIT
        raise Unsupported("stmt " + k)

    # ---- assignment
    def lvalue_path(self, env, n):
        k = n["k"]
        if k == "path" and len(n["segs"]) == 1: return n["segs"][0], []
        if k == "field":
            root, p = self.lvalue_path(env, n["e"]); return root, p + [("f", n["name"])]
        if k == "index":
            root, p = self.lvalue_path(env, n["e"])
            i = self.ev(env, n["i"])
            if not tm.is_const(i): raise Unsupported("symbolic index assignment")
            return root, p + [("i", i.args[0])]
        if k == "paren": return self.lvalue_path(env, n["e"])
        if k == "un" and n["op"] == "*": return self.lvalue_path(env, n["e"])
        raise Unsupported("lvalue " + k)

    def update(self, v, path, new):
        if not path: return new
        (kind, key), rest = path[0], path[1:]
        if kind == "f":
            if isinstance(v, Vec):
                c = list(v.c); i = "xyzw".index(key); c[i] = self.update(c[i], rest, new); return Vec(c)
            if isinstance(v, Struct):
                f = dict(v.f); f[key] = self.update(f[key], rest, new); return Struct(v.name, f)
            if isinstance(v, Tup):
                e = list(v.e); e[int(key)] = self.update(e[int(key)], rest, new); return Tup(e)
        if kind == "i" and isinstance(v, Arr):
            e = list(v.e); e[key] = self.update(e[key], rest, new); return Arr(e, v.length)
        raise Unsupported("update path")

    def ev_assign(self, env, n):
        v = self.ev(env, n["r"])
        root, path = self.lvalue_path(env, n["l"])
        if root not in env.vars: raise Unsupported("assign to unknown " + root)
        env.vars[root] = self.update(env.vars[root], path, v)
        return UNIT

    def ev_opassign(self, env, n):
        cur = self.ev(env, n["l"])
        r = self.ev(env, n["r"])
        v = self.arith(env, n, n["op"], cur, r)
        root, path = self.lvalue_path(env, n["l"])
        env.vars[root] = self.update(env.vars[root], path, v)
        return UNIT

    def ev_continue(self, env, n):
        """`continue`: this path leaves the loop body; recorded in env.conts and re-joined by the enclosing unrolled loop
        (for a loop-body slice it simply ends the slice, like `return` ends the function)."""
        if n.get("label"): raise Unsupported("labelled continue")
        env.conts.append((env.pc, dict(env.vars)))
        env.pc = FALSE
        return None

    def ev_break(self, env, n):
        """`break` (without value): this path leaves the enclosing loop; recorded in env.breaks and re-joined after the unrolled loop
        (for a loop-body slice it ends the slice: the caller reads env.breaks like env.returns)."""
        if n.get("label") or n.get("e") is not None: raise Unsupported("labelled break / break with a value")
        env.breaks.append((env.pc, dict(env.vars)))
        env.pc = FALSE
        return None

    def rejoin_breaks(self, env, mark):
        mine, env.breaks = env.breaks[mark:], env.breaks[:mark]
        for pc_b, vars_b in mine:
            if env.pc is FALSE:
                env.vars, env.pc = dict(vars_b), pc_b
                continue
            env.vars = {k: merge(pc_b, vars_b[k], env.vars[k]) for k in env.vars if k in vars_b}
            env.pc = Or(env.pc, pc_b)

    def rejoin_continues(self, env, mark):
        """After one unrolled iteration: paths that hit `continue` resume here with the variables they had."""
        mine, env.conts = env.conts[mark:], env.conts[:mark]
        for pc_c, vars_c in mine:
            if env.pc is FALSE:
                env.vars, env.pc = {k: v for k, v in vars_c.items() if k in env.vars or True}, pc_c
                continue
            env.vars = {k: merge(pc_c, vars_c[k], env.vars[k]) for k in env.vars if k in vars_c}
            env.pc = Or(env.pc, pc_c)

    def ev_return(self, env, n):
        v = self.ev(env, n["e"]) if n["e"] is not None else UNIT
        env.returns.append((env.pc, v))
        env.pc = FALSE
        return None

    def ev_range(self, env, n):
        if n.get("lo") is None or n.get("hi") is None: raise Unsupported("open range")
        return RangeV(self.ev(env, n["lo"]), self.ev(env, n["hi"]), bool(n["inclusive"]))

    def ev_for(self, env, n):
        r = self.ev(env, n["e"])
        if not isinstance(r, RangeV): raise Unsupported("for over non-range")
        if n["pat"]["k"] not in ("pident", "pwild"): raise Unsupported("for pattern")
        lo, hi = r.lo, r.hi
        if tm.is_const(lo) and tm.is_const(hi):
            hi_v = hi.args[0] + (1 if r.inclusive else 0)
            bmark = len(env.breaks)
            for i in range(lo.args[0], hi_v):
                if env.pc is FALSE: break
                if n["pat"]["k"] == "pident": env.vars[n["pat"]["name"]] = Const(i, "Int", "usize")
                mark = len(env.conts)
                self.exec_block(env, n["body"])
                self.rejoin_continues(env, mark)
            self.rejoin_breaks(env, bmark)
            return UNIT
        # bounds that are case distinctions of literals: iterate over the hull, each iteration guarded by lo <= i (<|<=) hi
        ll, hl = const_leaves(lo), const_leaves(hi)
        if ll is None or hl is None: raise Unsupported("for with symbolic bounds")
        for i in range(min(ll), max(hl) + (1 if r.inclusive else 0)):
            ci = Const(i, "Int", "usize")
            c = And(Le(lo, ci), Le(ci, hi) if r.inclusive else Lt(ci, hi))
            ea = env.fork(And(env.pc, c))
            if n["pat"]["k"] == "pident": ea.vars[n["pat"]["name"]] = ci
            self.exec_block(ea, n["body"])
            self.rejoin_continues(ea, 0)
            if n["pat"]["k"] == "pident":
                if n["pat"]["name"] in env.vars: ea.vars[n["pat"]["name"]] = env.vars[n["pat"]["name"]]
                else: ea.vars.pop(n["pat"]["name"], None)
            eb = env.fork(And(env.pc, Not(c)))
            self.join(env, c, ea, UNIT, eb, UNIT)
        return UNIT

    def ev_closure(self, env, n): return Closure(n, env)

    # ---- macros
    def ev_macro(self, env, n):
        name = n["name"]
        args = n["args"]
        if name in ("assert", "debug_assert"):
            c = self.ev(env, args[0])
            self.panic_if(env, n, c, name)
            return UNIT
        if name in ("assert_eq", "debug_assert_eq"):
            a, b = self.ev(env, args[0]), self.ev(env, args[1])
            c = Eq(a.tag, b.tag) if isinstance(a, Enum) else Eq(a, b)
            self.panic_if(env, n, c, name)
            return UNIT
        if name in ("panic", "unreachable", "unimplemented", "todo"):
            self.panic_if(env, n, FALSE, name)
            return None
        if name == "vec" and args is not None:
            return Arr([self.ev(env, a) for a in args])
        if name in ("println", "eprintln", "dbg"): return UNIT
        raise Unsupported("macro %s!" % name)

    # ---- calls
    def ev_call(self, env, n):
        f = n["f"]
        if f["k"] != "path":
            fv = self.ev(env, f)
            if isinstance(fv, Closure): return self.call_closure(env, fv, [self.ev(env, a) for a in n["args"]])
            raise Unsupported("call of non-path")
        segs = f["segs"]
        args = [self.ev_arg(env, a) for a in n["args"]]
        if len(segs) == 1 and isinstance(env.vars.get(segs[0]), Closure):
            return self.call_closure(env, env.vars[segs[0]], args)
        name = "::".join(segs)
        if segs[0] == "Self" and env.self_ty: name = env.self_ty + "::" + "::".join(segs[1:])
        # glam constructors
        if name in ("DVec3::new", "DVec4::new", "DVec2::new"): return Vec(args)
        if name in ("DVec3::splat",): return Vec([args[0]] * 3)
        if name in ("DVec4::splat",): return Vec([args[0]] * 4)
        if name == "DVec3::from_array": return Vec(args[0].e)
        if name in ("DMat3::from_cols", "DMat4::from_cols"): return Mat(args)
        if name == "Some": return Opt(TRUE, args[0])
        if name == "Ok": return Res(TRUE, args[0])
        if name == "Err": return Res(FALSE, None, args[0])
        if name in ("Integer::from", "Integer::default", "IBig::from"):
            if name.endswith("default"): return Const(0, "Int", "big")
            a = args[0]
            return a if tm.is_const(a) else tm.Retag(a, "big")
        return self.call_user(env, n, name, args)

    def ev_arg(self, env, a):
        """Call argument; in tolerant mode an argument outside the subset becomes a Havoc value (the call itself may still be
        resolvable through a contract hook that does not look at it)."""
        if not self.tolerant: return self.ev(env, a)
        snap = self.snapshot(env)
        try:
            return self.ev(env, a)
        except StopExecution:
            raise
        except self.TOLERATED:
            self.restore(env, snap)
            return Havoc(self.ctx, "arg")

    def call_closure(self, env, cl, args):
        sub = Env(self.ctx, cl.env.vars, env.pc, cl.env.self_ty)
        # closures see later updates of captured variables only if not `move`; units here never mutate captures
        for p, a in zip(cl.node["params"], args): self.bind_pat(sub, p, a)
        v = self.ev(sub, cl.node["body"])
        v = self.finish_returns(sub, v)
        env.pc = And(env.pc, Or(sub.pc, *[c for c, _ in sub.returns])) if sub.pc is not env.pc else env.pc
        return v

    def finish_returns(self, sub, v):
        if sub.pc is FALSE: v = None        # control never falls off the end: only the early returns carry a value
        out = v
        for c, rv in reversed(sub.returns):
            out = rv if out is None else merge(c, rv, out)
        return out

    def call_user(self, env, n, name, args, self_val=None):
        con = self.ctx.contracts.get(name)
        if con is not None:
            return con(self, env, n, args)
        fn = self.local_fns.get(name) or self.ctx.resolver(name)
        if fn is None: raise Unsupported("call to %s at %s" % (name, site(n)))
        self.ctx.inlined.append(name)
        return self.inline(env, fn, args)

    def inline(self, env, fn, args):
        params = fn["sig"]["params"]
        self_ty = fn["path"].split("::")[0] if "::" in fn["path"] else None
        sub = Env(self.ctx, {}, env.pc, self_ty)
        if len(params) != len(args): raise Unsupported("arity of %s" % fn["path"])
        for p, a in zip(params, args):
            if p["k"] == "self": sub.vars["self"] = a
            else: self.bind_pat(sub, p["pat"], a)
        v = self.exec_block(sub, fn["body"])
        v = self.finish_returns(sub, v)
        live = Or(sub.pc, *[c for c, _ in sub.returns])
        env.pc = live
        self.last_self = sub.vars.get("self") if not sub.returns else None   # final receiver state (only when no early return forked it)
        return v

    def ev_mcall(self, env, n):
        m = n["m"]
        recv = self.ev(env, n["recv"])
        # closures as arguments (map_or etc.) are evaluated lazily below
        if isinstance(recv, Opt) and m in ("get_or_insert_with", "get_or_insert") and len(n["args"]) == 1:
            # Option::get_or_insert[_with]: the value already there, else the new one - which is also written back into the place
            if m == "get_or_insert_with":
                cl = self.ev(env, n["args"][0])
                sub = env.fork(And(env.pc, Not(recv.some)))
                new = self.call_closure(sub, cl, [])
            else:
                new = self.ev(env, n["args"][0])
            val = new if recv.val is None else merge(recv.some, recv.val, new)
            root, path = self.lvalue_path(env, n["recv"])
            if root not in env.vars: raise Unsupported("get_or_insert on an unknown place")
            env.vars[root] = self.update(env.vars[root], path, Opt(TRUE, val))
            return val
        if isinstance(recv, Opt) and m in ("filter", "and_then", "is_some_and"):
            cl = self.ev(env, n["args"][0])
            if recv.val is None: return Opt(FALSE, None) if m != "is_some_and" else FALSE
            sub = env.fork(And(env.pc, recv.some))
            r = self.call_closure(sub, cl, [recv.val])
            if m == "filter": return Opt(And(recv.some, r), recv.val)
            if m == "is_some_and": return And(recv.some, r)
            if not isinstance(r, Opt): raise Unsupported("and_then closure does not return an Option")
            return Opt(And(recv.some, r.some), r.val)
        if isinstance(recv, Opt) and m in ("map_or", "map", "is_some", "is_none", "unwrap", "expect", "unwrap_or", "as_ref", "copied", "cloned"):
            if m in ("as_ref", "copied", "cloned"): return recv
            if m == "is_some": return recv.some
            if m == "is_none": return Not(recv.some)
            if m in ("unwrap", "expect"):
                self.panic_if(env, n, recv.some, m)
                return recv.val
            if m == "unwrap_or":
                d = self.ev(env, n["args"][0])
                return d if recv.val is None else merge(recv.some, recv.val, d)
            if m == "map_or":
                d = self.ev(env, n["args"][0])
                cl = self.ev(env, n["args"][1])
                if recv.val is None: return d
                sub = env.fork(And(env.pc, recv.some))
                r = self.call_closure(sub, cl, [recv.val])
                return merge(recv.some, r, d)
            if m == "map":
                cl = self.ev(env, n["args"][0])
                if recv.val is None: return Opt(FALSE, None)
                sub = env.fork(And(env.pc, recv.some))
                return Opt(recv.some, self.call_closure(sub, cl, [recv.val]))
        if isinstance(recv, IterV):
            if m == "by_ref": return recv
            if m == "next" and not recv.adapters:
                k = recv.consumed
                recv.consumed += 1          # the iterator is a place: `next` advances it
                some = TRUE if getattr(recv, "always_some", False) else self.ctx.fresh("%s_has_%d" % (recv.name, k), "Bool")
                return Opt(some, recv.elem(k))
            if m == "skip" and not recv.adapters:
                a0 = self.ev(env, n["args"][0])
                if tm.is_const(a0): return IterV(recv.name, recv.elem, recv.consumed + a0.args[0], ())
            return IterV(recv.name, recv.elem, recv.consumed, recv.adapters + (m,))     # any other adapter: remembered by name only
        args = [self.ev_arg(env, a) for a in n["args"]]
        if ("?::" + m) in self.ctx.contracts and not isinstance(recv, (Vec, T)):
            return self.ctx.contracts["?::" + m](self, env, n, [recv] + args)      # a recording hook for this method name, whatever the receiver
        if isinstance(recv, RangeV) and m == "clone": return recv
        if isinstance(recv, Havoc) and self.tolerant:
            # a method of an unknown value: unknown result; it may write through `&mut` arguments (their roots are havoc'd) and into the receiver
            # (already unknown). Nothing else can change (Rust's borrow rules).
            for a_ in n["args"]:
                for r_ in self.mutated_roots({"k": "x", "a": a_}):
                    if r_ in env.vars and r_ in self.ctx.mutable: env.vars[r_] = fresh_like(self.ctx, env.vars[r_], r_)
            con = self.ctx.contracts.get("?::" + m)          # a recording hook for a method of an unknown receiver (e.g. `?::collect`)
            if con is not None: return con(self, env, n, [recv] + args)
            return Havoc(self.ctx, "result_of_" + m)
        if isinstance(recv, Vec): return self.vec_method(env, n, recv, m, args)
        if isinstance(recv, Mat):
            if m == "determinant":
                cols = [c.c for c in recv.cols]
                return det(cols)
            raise Unsupported("Mat." + m)
        if isinstance(recv, T): return self.scalar_method(env, n, recv, m, args)
        if isinstance(recv, SymArr):
            if m == "len" and recv.length is not None: return recv.length
            if m in ("clone", "to_vec", "iter", "as_ref"): return recv
            con = self.ctx.contracts.get("[]::" + m)
            if con is not None: return con(self, env, n, [recv] + args)
        if isinstance(recv, Arr):
            if m == "len":
                return recv.length if recv.length is not None else Const(len(recv.e), "Int", "usize")
            if m in ("clone", "to_vec", "iter", "as_ref", "into_iter", "copied", "cloned"): return recv
            if m == "contains":
                return Or(*[Eq(x, args[0]) for x in recv.e])
            if m == "map" and len(args) == 1 and isinstance(args[0], Closure):
                return Arr([self.call_closure(env, args[0], [x]) for x in recv.e])
            if m in ("all", "any") and len(args) == 1 and isinstance(args[0], Closure):
                cs = [self.call_closure(env, args[0], [x]) for x in recv.e]
                cs = [c.coerce("Bool") if isinstance(c, Havoc) else c for c in cs]
                return And(*cs) if m == "all" else Or(*cs)
            if m in ("max_by", "min_by") and len(args) == 1 and isinstance(args[0], Closure):
                # core::iter::Iterator::{max_by, min_by}: a fold that keeps the later element on ties for max (`Greater => x, _ => y`),
                # the earlier one for min (`Greater => y, _ => x`); None for an empty iterator
                if not recv.e: return Opt(FALSE, None)
                acc = recv.e[0]
                for y in recv.e[1:]:
                    o = self.call_closure(env, args[0], [acc, y])
                    if not (isinstance(o, tuple) and o[0] == "sign"): raise Unsupported("comparator of %s does not return an Ordering" % m)
                    gt = self.sign_cond(o[1], "Greater")
                    acc = merge(gt, acc, y) if m == "max_by" else merge(gt, y, acc)
                return Opt(TRUE, acc)
        if isinstance(recv, Enum):
            if m in ("clone", "into"): return recv
        if isinstance(recv, Struct):
            if m == "clone": return recv
            name = recv.name + "::" + m
            con = self.ctx.contracts.get(name)
            if con is not None: return con(self, env, n, [recv] + args)
            fn = self.ctx.resolver(name)
            if fn is not None:
                self.ctx.inlined.append(name)
                sp_ = [q for q in fn["sig"]["params"] if q["k"] == "self"]
                r_ = self.inline(env, fn, [recv] + args)
                if sp_ and sp_[0].get("ref") and sp_[0].get("mut"):
                    # `&mut self` method: the receiver's final state is written back to the place it was called on
                    if self.last_self is None: raise Unsupported("&mut self method with early return at %s" % site(n))
                    root, path = self.lvalue_path(env, n["recv"])
                    if root not in env.vars: raise Unsupported("&mut self call on unknown place")
                    env.vars[root] = self.update(env.vars[root], path, self.last_self)
                return r_
        if isinstance(recv, Enum):
            name = recv.name + "::" + m
            fn = self.ctx.resolver(name)
            if fn is not None:
                self.ctx.inlined.append(name)
                return self.inline(env, fn, [recv] + args)
        raise Unsupported("method %s on %s at %s" % (m, type(recv).__name__, site(n)))

    def vec_method(self, env, n, v, m, a):
        R = lambda x: Const(x, "Real")
        dot = lambda p, q: tm.Sum([x * y for x, y in zip(p.c, q.c)])
        if m == "dot": return dot(v, a[0])
        if m == "cross":
            p, q = v.c, a[0].c
            return Vec([p[1] * q[2] - q[1] * p[2], p[2] * q[0] - q[2] * p[0], p[0] * q[1] - q[0] * p[1]])
        if m == "length_squared": return dot(v, v)
        if m == "length": return self.sqrt(env, n, dot(v, v))
        if m == "distance_squared":
            d = Vec([x - y for x, y in zip(v.c, a[0].c)]); return dot(d, d)
        if m == "distance":
            d = Vec([x - y for x, y in zip(v.c, a[0].c)]); return self.sqrt(env, n, dot(d, d))
        if m == "normalize":
            l = self.sqrt(env, n, dot(v, v))
            self.oblige(env, "div-nonzero", n, tm.Ne(l, R(0)))
            return Vec([x / l for x in v.c])
        if m == "project_onto":
            r = a[0]
            rr = dot(r, r)
            self.oblige(env, "div-nonzero", n, tm.Ne(rr, R(0)))
            s = dot(v, r) / rr
            return Vec([x * s for x in r.c])
        if m == "project_onto_normalized":
            # glam: `rhs * self.dot(rhs)` (rhs is ASSUMED to be of unit length by glam; nothing is assumed here)
            r = a[0]; s = dot(v, r)
            return Vec([x * s for x in r.c])
        if m in ("reject_from", "reject_from_normalized"):
            pr = self.vec_method(env, n, v, "project_onto" + m[len("reject_from"):], a)
            return Vec([x - y for x, y in zip(v.c, pr.c)])
        if m == "abs": return Vec([tm.Abs(x) for x in v.c])
        if m == "signum": return Vec([self.signum(env, n, x) for x in v.c])
        if m == "extend": return Vec(v.c + [a[0]])
        if m == "truncate": return Vec(v.c[:-1])
        if m == "to_array": return Arr(v.c)
        if m in ("clone",): return v
        if m == "min": return Vec([tm.Min(x, y) for x, y in zip(v.c, a[0].c)])
        if m == "max": return Vec([tm.Max(x, y) for x, y in zip(v.c, a[0].c)])
        if m == "is_finite": return TRUE
        if m == "element_sum": return tm.Sum(v.c)
        if m in ("ceil", "floor"): return Vec([self.round_int(env, n, x, m) for x in v.c])
        if m in ("as_uvec3", "as_dvec3", "as_ivec3"): return v          # numeric casts between vectors of integers-as-reals
        if m == "min_element":
            r = v.c[0]
            for x in v.c[1:]: r = tm.Min(r, x)
            return r
        if m == "max_element":
            r = v.c[0]
            for x in v.c[1:]: r = tm.Max(r, x)
            return r
        raise Unsupported("DVec method " + m)

    def round_int(self, env, node, x, how):
        """f64::ceil / floor over the reals: the integer c with x <= c < x + 1 (ceil) resp. c <= x < c + 1 (floor)."""
        k = self.ctx.fresh(how, "Int")
        c = tm.ToReal(k)
        one = Const(1, "Real")
        self.ctx.assume.append(And(Le(x, c), Lt(c, x + one)) if how == "ceil" else And(Le(c, x), Lt(x, c + one)))
        return c

    def scalar_method(self, env, n, x, m, a):
        if x.sort == "Real":
            if m == "sqrt": return self.sqrt(env, n, x)
            if m == "abs": return tm.Abs(x)
            if m == "signum": return self.signum(env, n, x)
            if m == "recip":
                self.oblige(env, "div-nonzero", n, tm.Ne(x, Const(0, "Real"))); return Const(1, "Real") / x
            if m == "max": return tm.Max(x, a[0])
            if m == "min": return tm.Min(x, a[0])
            if m == "is_finite": return TRUE
            if m == "is_nan": return FALSE
            if m == "powi" and tm.is_const(a[0]):
                r = Const(1, "Real")
                for _ in range(a[0].args[0]): r = r * x
                return r
            if m in ("clone", "to_f64", "value"): return x
            if m in ("ceil", "floor"): return self.round_int(env, n, x, m)
            if m == "partial_cmp" and len(a) == 1 and isinstance(a[0], T) and a[0].sort == "Real":
                return Opt(TRUE, ("sign", x - a[0]))       # A-REAL: no NaN, so the comparison is total
        if x.sort == "Int":
            if m == "signum":
                r = Ite(Gt(x, Const(0, "Int")), Const(1, "Int"), Ite(Lt(x, Const(0, "Int")), Const(-1, "Int"), Const(0, "Int")))
                return r
            if m == "to_f64": return tm.ToReal(x)
            if m in ("clone", "into", "value"): return x
            if m == "sign": return ("sign", x)
            if m == "abs": return tm.Abs(x)
            if m == "cmp" and len(a) == 1 and isinstance(a[0], T) and a[0].sort == "Int": return ("sign", x - a[0])   # Ord::cmp (A-BIG / std)
            if m == "partial_cmp" and len(a) == 1 and isinstance(a[0], T) and a[0].sort == "Int": return Opt(TRUE, ("sign", x - a[0]))
            if m == "is_positive": return Gt(x, Const(0, "Int"))
            if m == "is_negative": return Lt(x, Const(0, "Int"))
            if m == "is_zero": return Eq(x, Const(0, "Int"))
        if x.sort == "Bool":
            if m == "clone": return x
        raise Unsupported("scalar method %s on %s" % (m, x.sort))


def run_function(fn, inputs, ctx=None, interp_cls=Interp, consts=None, self_ty=None, features=None, n_stmts=None):
    """Symbolically execute a vx fn node on the given inputs (dict name->value, 'self' for receivers).
    Returns (result value, final env, ctx, interp)."""
    ctx = ctx or Ctx()
    it = interp_cls(ctx, consts)
    if features is not None: it.features = set(features)
    if self_ty is None and "::" in fn["path"]: self_ty = fn["path"].split("::")[0]
    env = Env(ctx, {}, TRUE, self_ty)
    for p in fn["sig"]["params"]:
        if p["k"] == "self":
            env.vars["self"] = inputs["self"]
        else:
            pat = p["pat"]
            while pat["k"] == "ptype": pat = pat["pat"]
            if pat["k"] != "pident": raise Unsupported("param pattern")
            env.vars[pat["name"]] = inputs[pat["name"]]
    it.note_params(fn)
    body = fn["body"]
    if n_stmts is not None:
        body = dict(body); body["stmts"] = body["stmts"][:n_stmts]
    v = it.exec_block(env, body)
    v = it.finish_returns(env, v)
    return v, env, ctx, it


def run_stmts(stmts, vars, ctx=None, consts=None, self_ty=None, features=None):
    """Symbolically execute a statement slice in a prepared environment. Returns (value, env, ctx, interp);
    env.returns holds early returns, env.pc the condition under which control reaches the end of the slice."""
    ctx = ctx or Ctx()
    it = Interp(ctx, consts)
    if features is not None: it.features = set(features)
    env = Env(ctx, dict(vars), TRUE, self_ty)
    v = it.exec_block(env, {"k": "block", "stmts": stmts, "sp": [stmts[0]["sp"][0], stmts[-1]["sp"][1]]})
    return v, env, ctx, it
