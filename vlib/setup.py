"""setup: build the framework's own tools from files on disk (offline)."""
import os, subprocess, sys
from .extract import VERIF, BUILD


def main():
    os.makedirs(BUILD, exist_ok=True)
    env = dict(os.environ, CARGO_NET_OFFLINE="true", CARGO_TARGET_DIR=os.path.join(BUILD, "vx"))
    p = subprocess.run(["cargo", "build", "--release", "--offline"], cwd=os.path.join(VERIF, "vx"), env=env)
    if p.returncode != 0:
        print("setup: building vx failed"); return 1
    from . import runner
    try:
        runner.build_replay("debug")
    except Exception as e:
        print("setup: replay crate failed to build: %s" % e); return 1
    print("setup ok")
    return 0
