"""Term DAG for the E2 back end: SMT-LIB printing and exact/float evaluation.

Sorts: 'Int', 'Real', 'Bool'.  Terms are hash-consed tuples wrapped in class T.
`mty` is the Rust machine type the term came from ('i64','usize','f64','big',None); it is
metadata only (used to generate overflow obligations), it does not change the SMT sort.
"""
from fractions import Fraction
import math

_intern = {}


class T:
    __slots__ = ("op", "args", "sort", "mty", "_h")

    def __init__(self, op, args, sort, mty=None):
        self.op, self.args, self.sort, self.mty = op, args, sort, mty
        self._h = hash((op, args, sort))

    def __hash__(self):
        return self._h

    def __eq__(self, o):
        return self is o or (isinstance(o, T) and self.op == o.op and self.sort == o.sort and self.args == o.args)

    # arithmetic sugar (comparisons are functions below, not operators)
    def __add__(self, o): return Add(self, lift(o, self.sort))
    def __radd__(self, o): return Add(lift(o, self.sort), self)
    def __sub__(self, o): return Sub(self, lift(o, self.sort))
    def __rsub__(self, o): return Sub(lift(o, self.sort), self)
    def __mul__(self, o): return Mul(self, lift(o, self.sort))
    def __rmul__(self, o): return Mul(lift(o, self.sort), self)
    def __truediv__(self, o): return Div(self, lift(o, self.sort))
    def __rtruediv__(self, o): return Div(lift(o, self.sort), self)
    def __neg__(self): return Neg(self)

    def __repr__(self):
        return "T<%s>" % to_smt_inline(self)[:120]


def mk(op, args, sort, mty=None):
    t = T(op, tuple(args), sort, mty)
    k = (op, t.args, sort)
    got = _intern.get(k)
    if got is None:
        _intern[k] = t
        return t
    if mty is not None and got.mty is None:
        got.mty = mty
    return got


def Var(name, sort, mty=None): return mk("var", (name,), sort, mty)


def Const(v, sort=None, mty=None):
    if isinstance(v, bool):
        return mk("const", (v,), "Bool")
    if sort is None:
        sort = "Int" if isinstance(v, int) else "Real"
    if sort == "Real":
        v = Fraction(v)
    else:
        v = int(v)
    return mk("const", (v,), sort, mty)


TRUE = Const(True)
FALSE = Const(False)


def lift(v, sort="Real"):
    if isinstance(v, T):
        return v
    if isinstance(v, bool):
        return Const(v)
    if isinstance(v, float):
        return Const(Fraction(v), "Real")
    return Const(v, sort)


def is_const(t): return t.op == "const"


def _num2(a, b):
    a = lift(a, b.sort if isinstance(b, T) else "Real")
    b = lift(b, a.sort)
    if a.sort != b.sort:
        raise TypeError("sort mismatch %s vs %s: %r %r" % (a.sort, b.sort, a, b))
    return a, b


def Add(a, b):
    a, b = _num2(a, b)
    if is_const(a) and is_const(b): return Const(a.args[0] + b.args[0], a.sort)
    if is_const(a) and a.args[0] == 0: return b
    if is_const(b) and b.args[0] == 0: return a
    return mk("+", (a, b), a.sort)


def Sub(a, b):
    a, b = _num2(a, b)
    if is_const(a) and is_const(b): return Const(a.args[0] - b.args[0], a.sort)
    if is_const(b) and b.args[0] == 0: return a
    return mk("-", (a, b), a.sort)


def Mul(a, b):
    a, b = _num2(a, b)
    if is_const(a) and is_const(b): return Const(a.args[0] * b.args[0], a.sort)
    for x, y in ((a, b), (b, a)):
        if is_const(x):
            if x.args[0] == 0: return x
            if x.args[0] == 1: return y
    return mk("*", (a, b), a.sort)


def Div(a, b):
    a, b = _num2(a, b)
    if a.sort != "Real": raise TypeError("Div on non-Real")
    if is_const(a) and is_const(b) and b.args[0] != 0: return Const(a.args[0] / b.args[0], "Real")
    if is_const(b) and b.args[0] == 1: return a
    return mk("/", (a, b), "Real")


def Neg(a):
    if is_const(a): return Const(-a.args[0], a.sort)
    return mk("neg", (a,), a.sort)


def Ite(c, a, b):
    c = lift(c)
    if not isinstance(a, T) and not isinstance(b, T):
        a = lift(a); b = lift(b, a.sort)
    elif not isinstance(a, T):
        a = lift(a, b.sort)
    elif not isinstance(b, T):
        b = lift(b, a.sort)
    if a.sort != b.sort:
        raise TypeError("Ite sort mismatch")
    if is_const(c): return a if c.args[0] else b
    if a == b: return a
    return mk("ite", (c, a, b), a.sort, a.mty if a.mty == b.mty else None)


def _cmp(op, a, b, f):
    a, b = _num2(a, b)
    if is_const(a) and is_const(b): return Const(bool(f(a.args[0], b.args[0])))
    return mk(op, (a, b), "Bool")


def Lt(a, b): return _cmp("<", a, b, lambda x, y: x < y)
def Le(a, b): return _cmp("<=", a, b, lambda x, y: x <= y)
def Gt(a, b): return Lt(b, a)
def Ge(a, b): return Le(b, a)


def Eq(a, b):
    if isinstance(a, T) and a.sort == "Bool":
        b = lift(b)
        if is_const(a) and is_const(b): return Const(a.args[0] == b.args[0])
        return mk("=", (a, b), "Bool")
    return _cmp("=", a, b, lambda x, y: x == y)


def Ne(a, b): return Not(Eq(a, b))


def Not(a):
    a = lift(a)
    if is_const(a): return Const(not a.args[0])
    if a.op == "not": return a.args[0]
    return mk("not", (a,), "Bool")


def And(*xs):
    out = []
    for x in xs:
        x = lift(x)
        if is_const(x):
            if not x.args[0]: return FALSE
            continue
        if x.op == "and": out.extend(x.args)
        else: out.append(x)
    if not out: return TRUE
    if len(out) == 1: return out[0]
    return mk("and", tuple(out), "Bool")


def Or(*xs):
    out = []
    for x in xs:
        x = lift(x)
        if is_const(x):
            if x.args[0]: return TRUE
            continue
        if x.op == "or": out.extend(x.args)
        else: out.append(x)
    if not out: return FALSE
    if len(out) == 1: return out[0]
    return mk("or", tuple(out), "Bool")


def Implies(a, b): return Or(Not(a), b)
def Xor(a, b): return Not(Eq(a, b))
def Abs(a): return Ite(Ge(a, Const(0, a.sort)), a, Neg(a))
def ToReal(a): return a if a.sort == "Real" else (Const(Fraction(a.args[0]), "Real") if is_const(a) else mk("to_real", (a,), "Real"))


def Max(a, b): return Ite(Ge(a, b), a, b)
def Min(a, b): return Ite(Le(a, b), a, b)


def Sum(xs, sort="Real"):
    r = Const(0, sort)
    for x in xs: r = Add(r, x)
    return r


# ---------------------------------------------------------------- printing
_SMT_OP = {"+": "+", "-": "-", "*": "*", "/": "/", "neg": "-", "ite": "ite", "<": "<", "<=": "<=", "=": "=",
           "and": "and", "or": "or", "not": "not", "to_real": "to_real"}


def Retag(a, mty):
    """Same value, different Rust machine type (e.g. Integer::from(i64)): a distinct node so that the
    machine-type metadata of the operand is not overwritten. Printed as its argument."""
    return mk("id", (a,), a.sort, mty)



def _const_smt(t):
    v = t.args[0]
    if t.sort == "Bool": return "true" if v else "false"
    if t.sort == "Int": return str(v) if v >= 0 else "(- %d)" % -v
    v = Fraction(v)
    n, d = v.numerator, v.denominator
    s = "%d.0" % abs(n) if d == 1 else "(/ %d.0 %d.0)" % (abs(n), d)
    return s if n >= 0 else "(- %s)" % s


def free_vars(ts):
    seen, out, stack = set(), {}, list(ts)
    while stack:
        t = stack.pop()
        if id(t) in seen: continue
        seen.add(id(t))
        if t.op == "var": out[t.args[0]] = t.sort
        elif t.op != "const": stack.extend(t.args)
    return out


def to_smt_inline(t, depth=0):
    if t.op == "var": return t.args[0]
    if t.op == "const": return _const_smt(t)
    if t.op == "id": return to_smt_inline(t.args[0], depth)
    if depth > 6: return "…"
    return "(%s %s)" % (_SMT_OP[t.op], " ".join(to_smt_inline(a, depth + 1) for a in t.args))


def smt_script(assumptions, goal_negated, logic=None, extra_decl=""):
    """SMT-LIB script: declare vars, define shared nodes, assert assumptions and the negated goal."""
    roots = list(assumptions) + [goal_negated]
    # count references
    refs, order, seen = {}, [], set()

    def visit(t):
        stack = [(t, False)]
        while stack:
            n, done = stack.pop()
            if done:
                order.append(n); continue
            if n.op in ("var", "const"): continue
            refs[n] = refs.get(n, 0) + 1
            if n in seen: continue
            seen.add(n)
            stack.append((n, True))
            for a in n.args: stack.append((a, False))
    for r in roots: visit(r)
    names = {}
    lines = []
    if logic: lines.append("(set-logic %s)" % logic)
    for v, s in sorted(free_vars(roots).items()):
        lines.append("(declare-const %s %s)" % (v, s))
    if extra_decl: lines.append(extra_decl)

    def pr(n):
        if n.op == "var": return n.args[0]
        if n.op == "const": return _const_smt(n)
        if n.op == "id": return pr(n.args[0])
        if n in names: return names[n]
        return "(%s %s)" % (_SMT_OP[n.op], " ".join(pr(a) for a in n.args))
    k = 0
    for n in order:
        if refs.get(n, 0) > 1 and n.op != "id":
            body = "(%s %s)" % (_SMT_OP[n.op], " ".join(pr(a) for a in n.args))
            nm = "t!%d" % k; k += 1
            lines.append("(define-fun %s () %s %s)" % (nm, n.sort, body))
            names[n] = nm
    for a in assumptions:
        lines.append("(assert %s)" % pr(a))
    lines.append("(assert %s)" % pr(goal_negated))
    lines.append("(check-sat)")
    return "\n".join(lines) + "\n"


# ---------------------------------------------------------------- evaluation
def evaluate(t, env, exact=True, _memo=None):
    """Evaluate under env: name -> int/Fraction/float/bool. exact=False uses floats for Real."""
    memo = {} if _memo is None else _memo

    def ev(n):
        if n in memo: return memo[n]
        op = n.op
        if op == "var":
            r = env[n.args[0]]
        elif op == "const":
            r = n.args[0]
            if n.sort == "Real" and not exact: r = float(r)
        else:
            a = [ev(x) for x in n.args] if op != "ite" else None
            if op == "+": r = a[0] + a[1]
            elif op == "-": r = a[0] - a[1]
            elif op == "*": r = a[0] * a[1]
            elif op == "/":
                r = (Fraction(a[0]) / Fraction(a[1]) if a[1] != 0 else Fraction(0)) if exact else (a[0] / a[1] if a[1] != 0 else math.nan)
            elif op == "neg": r = -a[0]
            elif op == "id": r = a[0]
            elif op == "ite": r = ev(n.args[1]) if ev(n.args[0]) else ev(n.args[2])
            elif op == "<": r = a[0] < a[1]
            elif op == "<=": r = a[0] <= a[1]
            elif op == "=": r = a[0] == a[1]
            elif op == "and": r = all(a)
            elif op == "or": r = any(a)
            elif op == "not": r = not a[0]
            elif op == "to_real": r = Fraction(a[0]) if exact else float(a[0])
            else: raise ValueError(op)
        memo[n] = r
        return r
    import sys
    old = sys.getrecursionlimit()
    sys.setrecursionlimit(max(old, 100000))
    try:
        return ev(t)
    finally:
        sys.setrecursionlimit(old)
