"""E3: run Kani harnesses on the real crate (compiled from the repository's current working tree)."""
import hashlib, os, re, signal, struct, subprocess, time
from .extract import BUILD, REPO, VERIF, Undecided
from .runner import Result

BASE = ["cargo", "kani", "--no-default-features", "--features", "ibig"]


def scan_assumptions(files=None):
    """Mechanical scan of the harness / contract files for trusted constructs (listed in the evidence on every run)."""
    import glob
    out = []
    for f in sorted(glob.glob(os.path.join(VERIF, "kani", "*.rs"))):
        if files and os.path.basename(f) not in files: continue
        t = open(f).read()
        cnt = {k: len(re.findall(pat, t)) for k, pat in (("kani::assume", r"kani::assume\("), ("kani::stub", r"#\[kani::stub\("), ("stub_verified", r"stub_verified\("),
                                                          ("kani::unwind", r"#\[kani::unwind\("), ("any_where", r"any_where\("))}
        cnt = {k: v for k, v in cnt.items() if v}
        if cnt: out.append("kani/%s: %s" % (os.path.basename(f), ", ".join("%s x%d" % kv for kv in cnt.items())))
    return ["mechanical scan of the Kani harness files: " + "; ".join(out)] if out else []


def _target_dir():
    tag = "" if REPO == "/repo" else "-" + hashlib.sha256(REPO.encode()).hexdigest()[:8]
    return os.path.join(BUILD, "kani-target" + tag)


def _run(cmd, timeout):
    env = dict(os.environ, CARGO_NET_OFFLINE="true")
    t0 = time.time()
    p = subprocess.Popen(cmd, cwd=REPO, env=env, stdout=subprocess.PIPE, stderr=subprocess.STDOUT, text=True,
                         start_new_session=True)
    try:
        out, _ = p.communicate(timeout=timeout)
        timed_out = False
    except subprocess.TimeoutExpired:
        try: os.killpg(p.pid, signal.SIGKILL)
        except Exception: pass
        out, _ = p.communicate()
        timed_out = True
    return out or "", time.time() - t0, timed_out


def parse(out):
    """Per-harness verdicts from `--output-format terse [-j N]` output."""
    res, cur, last = {}, {}, None
    for line in out.splitlines():
        m = re.match(r"Thread (\d+): ?(.*)", line)
        if m:
            th, rest = m.group(1), m.group(2)
            mm = re.match(r"Checking harness (\S+?)\.\.\.", rest)
            if mm:
                cur[th] = mm.group(1)
                res[mm.group(1)] = {"status": None, "time": 0.0, "failed": [], "covers": None, "text": []}
                last = None
                continue
            last = cur.get(th)
            line = rest
        else:
            mm = re.match(r"Checking harness (\S+?)\.\.\.", line)
            if mm:
                last = mm.group(1)
                res[last] = {"status": None, "time": 0.0, "failed": [], "covers": None, "text": []}
                continue
        if last is None: continue
        tgt = res[last]
        tgt["text"].append(line)
        if "VERIFICATION:- SUCCESSFUL" in line: tgt["status"] = "SUCCESSFUL"
        elif "VERIFICATION:- FAILED" in line: tgt["status"] = "FAILED"
        mt = re.search(r"Verification Time: ([0-9.]+)s", line)
        if mt: tgt["time"] = float(mt.group(1))
        mf = re.match(r"\s*Failed Checks: (.*)", line)
        if mf: tgt["failed"].append(mf.group(1).strip())
        mc = re.search(r"\*\* (\d+) of (\d+) cover properties satisfied", line)
        if mc: tgt["covers"] = (int(mc.group(1)), int(mc.group(2)))
    return res


def run_harnesses(names, timeout=600, jobs=None, solver=None, extra=()):
    """names: harness function names (unique suffixes). Returns dict name -> verdict dict (+ raw output)."""
    jobs = jobs or min(len(names), 12)
    cmd = BASE + ["--target-dir", _target_dir(), "-Z", "function-contracts", "-Z", "stubbing", "--output-format", "terse", "-j", str(jobs)]
    if solver: cmd += ["--solver", solver]
    cmd += list(extra)
    for n in names: cmd += ["--harness", n]
    out, dt, timed_out = _run(cmd, timeout)
    if "error: could not compile" in out or "error[E" in out:
        raise Undecided("cargo kani: crate does not compile under cfg(kani): " + out[-1500:])
    parsed = parse(out)
    verdicts = {}
    for n in names:
        hit = [k for k in parsed if k.endswith("::" + n) or k == n]
        if len(hit) != 1:
            verdicts[n] = {"status": None, "time": 0.0, "failed": [], "covers": None,
                           "text": ["harness not reported (timed out=%s)" % timed_out, out[-800:]]}
        else:
            verdicts[n] = parsed[hit[0]]
    return verdicts, out, dt


def playback(name, timeout=600, solver=None):
    """Re-run one failing harness with concrete playback; returns list of byte-vectors (kani::any() order)."""
    cmd = BASE + ["--target-dir", _target_dir(), "-Z", "function-contracts", "-Z", "stubbing", "-Z", "concrete-playback",
                  "--concrete-playback=print", "--harness", name]
    if solver: cmd += ["--solver", solver]
    out, dt, timed_out = _run(cmd, timeout)
    vals = []
    m = re.search(r"let concrete_vals: Vec<Vec<u8>> = vec!\[(.*?)\];", out, re.S)
    if m:
        for vm in re.finditer(r"vec!\[([0-9, ]*)\]", m.group(1)):
            body = vm.group(1).strip()
            vals.append(bytes(int(x) for x in body.split(",") if x.strip()) if body else b"")
    return vals, out


def as_f64(b): return struct.unpack("<d", b)[0]
def as_u64(b): return int.from_bytes(b, "little")


def classify(name, v, prop_prefix, unit, bounded=None, expect_covers=None):
    """Kani verdict -> Result."""
    text = "\n".join(v["text"])[-3000:]
    full = "%s.%s" % (prop_prefix, name)
    if v["status"] == "SUCCESSFUL":
        if expect_covers is not None:
            if v["covers"] is None or v["covers"][0] != v["covers"][1] or v["covers"][1] < expect_covers:
                return Result(full, "guard", "refuted-vacuity", v["time"], "cbmc", text, unit)
            return Result(full, "guard", "vacuity-ok", v["time"], "cbmc", text, unit)
        return Result(full, "E3", "discharged", v["time"], "cbmc", text, unit, bounded)
    if v["status"] == "FAILED":
        fails = v["failed"]
        soft = [f for f in fails if "unwinding assertion" in f or "unsupported" in f.lower() or "not supported" in f.lower()]
        if fails and len(soft) == len(fails):
            return Result(full, "E3", "undecided", v["time"], "cbmc", "only unwinding/unsupported failures: " + text, unit, bounded)
        return Result(full, "E3", "refuted", v["time"], "cbmc", text, unit, bounded)
    return Result(full, "E3", "undecided", v["time"], "cbmc", text, unit, bounded)


class H:
    """One Kani harness as an obligation: harness fn name, obligation label, unit (function under contract),
    bounded = None (complete: loop-free or loops closed by unwinding assertions over all inputs) or the stated bound,
    covers = number of cover properties when the harness is a vacuity guard, tiers it runs in."""
    def __init__(self, harness, label, unit, bounded=None, covers=None, tiers=("quick", "thorough"), contract=None):
        self.harness, self.label, self.unit, self.bounded, self.covers, self.tiers, self.contract = harness, label, unit, bounded, covers, tiers, contract


def run_specs(prefix, specs, tier, timeout=1500, jobs=12, solver=None):
    specs = [s for s in specs if tier in s.tiers]
    if not specs: return []
    verdicts, out, dt = run_harnesses([s.harness for s in specs], timeout=timeout, jobs=min(jobs, len(specs)), solver=solver)
    res = []
    for s in specs:
        r = classify(s.harness, verdicts[s.harness], prefix, s.unit, bounded=s.bounded, expect_covers=s.covers)
        r.name = "%s.%s" % (prefix, s.label)
        if r.status == "refuted":
            # concrete values from Kani's concrete playback (byte vectors in kani::any() order), attached verbatim
            try:
                vals, pout = playback(s.harness, timeout=min(timeout, 900))
                r.counterexample = {"harness": s.harness, "kani_any_values_le_bytes": [v.hex() for v in vals],
                                    "as_f64": [as_f64(v) for v in vals if len(v) == 8], "as_u64": [as_u64(v) for v in vals if len(v) in (1, 8)]}
                r.replay = {"reproduced": bool(vals), "how": "Kani concrete playback of the failing harness on the real crate (cargo kani -Z concrete-playback): "
                            "the harness itself calls the real function, so the byte vectors are the failing input", "harness": s.harness}
            except Exception as e:
                r.replay = {"reproduced": False, "error": repr(e)}
        res.append(r)
    return res
