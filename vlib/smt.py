"""Discharge E2 obligations with the installed SMT solvers (z3 4.8.12, z3-new 5.1, cvc5 1.0)."""
import os, re, subprocess, time, signal
from concurrent.futures import ThreadPoolExecutor
from . import terms as tm
from .extract import BUILD

SOLVERS = {
    "z3": lambda f, t: ["z3", "-T:%d" % t, f],
    "z3-new": lambda f, t: ["z3-new", "-T:%d" % t, f],
    "cvc5": lambda f, t: ["cvc5", "--tlimit=%d" % (t * 1000), f],
}


class Obligation:
    """One proof obligation: assumptions |- goal, refuted iff assumptions ∧ ¬goal is sat."""
    def __init__(self, name, assumptions, goal, unit=None, note="", expect_sat=False, solvers=None, timeout=None,
                 replay=None):
        self.name, self.assumptions, self.goal = name, list(assumptions), goal
        self.unit, self.note = unit, note
        self.expect_sat = expect_sat      # vacuity guard: the query must be SAT (preconditions satisfiable)
        self.solvers, self.timeout = solvers, timeout
        self.backend = "E2"
        self.skip = None
        self.optional = False             # attempted only: undecided does not gate and is not counted
        self.status, self.solver, self.time, self.model, self.output, self.file = None, None, 0.0, None, "", None
        self.replay = replay              # callable(model)-> dict describing replay on the real code

    def script(self):
        if self.expect_sat:
            return tm.smt_script(self.assumptions, self.goal)
        return tm.smt_script(self.assumptions, tm.Not(self.goal))


class LostUnit(Obligation):
    """Stands for ONE unit whose obligations could not be generated (lost anchor / source left the subset): undecided, never an alarm.
    The other units of the check, and its bounded stand-ins on the real code, still run."""
    def __init__(self, name, reason, unit):
        Obligation.__init__(self, name, [], tm.TRUE, unit)
        self.reason = reason


def _run_one(solver, path, timeout):
    t0 = time.time()
    try:
        p = subprocess.run(SOLVERS[solver](path, timeout), capture_output=True, text=True, timeout=timeout + 5)
        out = p.stdout.strip()
    except subprocess.TimeoutExpired:
        out = "timeout"
    dt = time.time() - t0
    first = out.splitlines()[0].strip() if out else "unknown"
    if first not in ("sat", "unsat"):
        first = "unknown"
    return solver, first, dt, out


def _model(path, solver, timeout):
    """Re-run with (get-model) appended; returns dict var -> python number/bool (best effort)."""
    with open(path) as f:
        s = f.read()
    mp = path[:-5] + ".model.smt2"
    with open(mp, "w") as f:
        f.write("(set-option :produce-models true)\n" + s + "(get-model)\n")
    try:
        p = subprocess.run(SOLVERS[solver](mp, timeout), capture_output=True, text=True, timeout=timeout + 5)
    except subprocess.TimeoutExpired:
        return {}, ""
    return parse_model(p.stdout), p.stdout


_tok = re.compile(r"\(|\)|[^\s()]+")


def _parse_sexprs(text):
    toks = _tok.findall(text)
    pos = 0

    def rd():
        nonlocal pos
        t = toks[pos]; pos += 1
        if t == "(":
            lst = []
            while toks[pos] != ")":
                lst.append(rd())
            pos += 1
            return lst
        return t
    out = []
    while pos < len(toks):
        out.append(rd())
    return out


def _val(e):
    from fractions import Fraction
    if isinstance(e, str):
        if e == "true": return True
        if e == "false": return False
        try:
            if e.endswith("?"): e = e[:-1]
            return Fraction(e) if "." in e else int(e)
        except ValueError:
            return None
    if e and e[0] == "-" and len(e) == 2:
        v = _val(e[1]); return None if v is None else -v
    if e and e[0] == "/" and len(e) == 3:
        a, b = _val(e[1]), _val(e[2])
        if a is None or b is None or b == 0: return None
        return Fraction(a) / Fraction(b)
    if e and e[0] == "root-obj":
        return None
    return None


def parse_model(text):
    m = {}
    try:
        sx = _parse_sexprs(text)
    except Exception:
        return m
    def visit(e):
        if isinstance(e, list):
            if len(e) == 5 and e[0] == "define-fun" and e[2] == []:
                v = _val(e[4])
                if v is not None: m[e[1]] = v
            else:
                for x in e: visit(x)
    for e in sx: visit(e)
    return m


def discharge(ob, tier="quick", default_timeout=60):
    """Run one obligation. status ∈ discharged / refuted / undecided (or vacuity-ok / vacuous)."""
    if isinstance(ob, LostUnit):
        ob.status, ob.output = "undecided", ob.reason
        return ob
    if ob.optional and tier != "thorough":
        ob.status, ob.output = "undecided", "optional obligation: attempted in the thorough tier only"
        return ob
    # scratch copies of the repository (audit / seed matrix) get their own directory, so that concurrent runs never share a query file
    from .extract import SCRATCH_TAG
    sub = "smt" + SCRATCH_TAG
    os.makedirs(os.path.join(BUILD, sub), exist_ok=True)
    path = os.path.join(BUILD, sub, re.sub(r"[^A-Za-z0-9_.-]", "_", ob.name) + ".smt2")
    with open(path, "w") as f:
        f.write(ob.script())
    ob.file = path
    solvers = ob.solvers or ["z3", "z3-new", "cvc5"]
    timeout = ob.timeout or default_timeout
    t0 = time.time()
    results = []
    if getattr(ob, "ring_result", None):
        ob.time = ob.ring_time
        ob.status, ob.solver = "discharged", "ring"
        ob.output = "ring:unsat(%.2fs)" % ob.time
        ob.per_solver = {"ring": ("unsat", round(ob.time, 3))}
        if tier != "thorough": return ob
        results.append(("ring", "unsat", ob.time, "unsat"))
    if tier == "thorough":
        with ThreadPoolExecutor(len(solvers)) as ex:
            results = results + list(ex.map(lambda s: _run_one(s, path, timeout), solvers))   # keep the ring verdict: the solvers re-check it, they do not replace it
    else:
        # first definitive answer wins; start all, poll
        procs = {}
        for s in solvers:
            procs[s] = subprocess.Popen(SOLVERS[s](path, timeout), stdout=subprocess.PIPE, stderr=subprocess.DEVNULL,
                                        text=True, start_new_session=True)
        deadline = time.time() + timeout + 5
        pending = dict(procs)
        while pending and time.time() < deadline:
            for s, p in list(pending.items()):
                if p.poll() is not None:
                    out = (p.stdout.read() or "").strip()
                    first = out.splitlines()[0].strip() if out else "unknown"
                    if first not in ("sat", "unsat"): first = "unknown"
                    results.append((s, first, time.time() - t0, out))
                    del pending[s]
                    if first in ("sat", "unsat"):
                        for q in pending.values():
                            try: os.killpg(q.pid, signal.SIGKILL)
                            except Exception: pass
                        pending = {}
                        break
            else:
                time.sleep(0.01)
                continue
        for q in pending.values():
            try: os.killpg(q.pid, signal.SIGKILL)
            except Exception: pass
    ob.time = time.time() - t0
    answers = {r[1] for r in results}
    ob.output = "; ".join("%s:%s(%.2fs)" % (r[0], r[1], r[2]) for r in results)
    ob.per_solver = {r[0]: (r[1], round(r[2], 3)) for r in results}
    sat_by = [r[0] for r in results if r[1] == "sat"]
    unsat_by = [r[0] for r in results if r[1] == "unsat"]
    if ob.expect_sat:
        if sat_by and not unsat_by: ob.status, ob.solver = "vacuity-ok", sat_by[0]
        elif unsat_by and not sat_by: ob.status, ob.solver = "vacuous", unsat_by[0]
        else: ob.status = "undecided"
        return ob
    if unsat_by and not sat_by:
        ob.status, ob.solver = "discharged", unsat_by[0]
    elif sat_by and not unsat_by:
        ob.status, ob.solver = "refuted", sat_by[0]
        ob.model, raw = _model(path, sat_by[0], timeout)
        ob.output += "\n" + raw[:4000]
    elif sat_by and unsat_by:
        ob.status = "undecided"
        ob.output += " (solvers disagree)"
    else:
        ob.status = "undecided"
    return ob


_RING_OBS = []


def _ring_worker(i):
    from . import ring
    ob = _RING_OBS[i]
    t0 = time.time()
    try:
        ok = ring.prove(ob.assumptions, ob.goal)
    except Exception:
        ok = False
    return ok, time.time() - t0


def discharge_all(obls, tier="quick", jobs=None, default_timeout=60):
    """Phase 1: exact polynomial normalisation (`ring`) in forked worker processes; phase 2: SMT solvers."""
    global _RING_OBS
    jobs = jobs or min(16, max(1, (os.cpu_count() or 4)))
    cand = [o for o in obls if not isinstance(o, LostUnit) and not o.expect_sat and not (o.optional and tier != "thorough") and "ring" not in (o.skip or ()) and (o.goal.op == "=" or o.goal.op == "and")]
    if cand:
        import multiprocessing as mp
        _RING_OBS = cand
        with mp.get_context("fork").Pool(min(jobs, len(cand))) as pool:
            for o, (ok, dt) in zip(cand, pool.map(_ring_worker, range(len(cand)), chunksize=1)):
                o.ring_result, o.ring_time = ok, dt
        _RING_OBS = []
    with ThreadPoolExecutor(max(1, jobs // 2)) as ex:
        list(ex.map(lambda o: discharge(o, tier, default_timeout), obls))
    return obls
