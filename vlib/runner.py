"""Common plumbing: obligations → classification → evidence / VIOLATION / KNOWN-FINDING / exit code."""
import json, os, re, subprocess, sys, time
from .extract import VERIF, BUILD, REPO, Undecided

EVID = os.environ.get("VERIF_EVIDENCE_DIR") or os.path.join(VERIF, "evidence")       # overridden only by the audit (scratch copies)
REPLAYS = os.environ.get("VERIF_REPLAY_DIR") or os.path.join(VERIF, "replays")
BASELINE = os.path.join(VERIF, "contracts", "baseline.json")
KNOWN = os.path.join(VERIF, "known_findings.txt")


class Result:
    """Outcome of one obligation, whatever the back end."""
    def __init__(self, name, backend, status, time_s=0.0, solver="", detail="", unit="", bounded=None,
                 counterexample=None, replay=None, file=None):
        self.name, self.backend, self.status = name, backend, status
        self.time, self.solver, self.detail, self.unit = time_s, solver, detail, unit
        self.bounded = bounded            # None = unbounded proof obligation; str = stated bound
        self.counterexample = counterexample
        self.replay = replay              # dict: what happened when the input was run on the real code
        self.file = file

    def row(self):
        d = {"name": self.name, "backend": self.backend, "status": self.status, "time_s": round(self.time, 3)}
        if self.solver: d["solver"] = self.solver
        if self.bounded: d["bounded"] = self.bounded
        if self.unit: d["unit"] = self.unit
        return d


def load_known():
    open_, fixed = [], []
    if os.path.exists(KNOWN):
        for line in open(KNOWN):
            line = line.strip()
            if not line or line.startswith("#"): continue
            m = re.match(r"(open|fixed):\s+property=(\S+)\s+(.*)", line)
            if not m: continue
            kind, prop, rest = m.groups()
            if kind == "open":
                mo = re.match(r"obligation=(\S+)\s+(.*)", rest)
                if mo: open_.append((prop, mo.group(1), mo.group(2)))
            else:
                fixed.append((prop, rest))
    return open_, fixed


def load_baseline():
    if os.path.exists(BASELINE):
        return json.load(open(BASELINE))
    return {}


_replay_built = {}


def build_replay(profile="debug", backend="ibig"):
    """Build the replay binary against the current working tree of the repository (hooks on). `backend`: the big-integer feature of the crate."""
    if (profile, backend) in _replay_built: return _replay_built[(profile, backend)]
    import hashlib, shutil
    tag = "" if REPO == "/repo" else "-" + hashlib.sha256(REPO.encode()).hexdigest()[:8]
    if backend != "ibig": tag += "-" + backend
    crate = os.path.join(BUILD, "replay-crate" + tag)
    os.makedirs(os.path.join(crate, "src"), exist_ok=True)
    toml = open(os.path.join(VERIF, "replay", "Cargo.toml")).read().replace('path = "/repo"', 'path = "%s"' % REPO).replace('features = ["ibig"]', 'features = ["%s"]' % backend)
    for src, dst in ((None, "Cargo.toml"), ("Cargo.lock", "Cargo.lock"), ("src/main.rs", "src/main.rs")):
        d = os.path.join(crate, dst)
        new = toml if src is None else open(os.path.join(VERIF, "replay", src)).read()
        if not os.path.exists(d) or open(d).read() != new:
            with open(d, "w") as f: f.write(new)
    tgt = os.path.join(BUILD, "replay-target" + tag)
    env = dict(os.environ, CARGO_NET_OFFLINE="true", RUSTFLAGS="--cfg meshless_voro_verif", CARGO_TARGET_DIR=tgt)
    cmd = ["cargo", "build", "--offline", "--quiet"] + (["--release"] if profile == "release" else [])
    p = subprocess.run(cmd, cwd=crate, env=env, capture_output=True, text=True, timeout=1200)
    if p.returncode != 0:
        raise Undecided("replay crate does not build against %s: %s" % (REPO, p.stderr[-800:]))
    exe = os.path.join(tgt, profile, "vreplay")
    _replay_built[(profile, backend)] = exe
    return exe


def replay_requests(reqs, profile="debug", timeout=120, backend="ibig"):
    exe = build_replay(profile, backend)
    inp = "\n".join(json.dumps(r) for r in reqs) + "\n"
    p = subprocess.run([exe], input=inp, capture_output=True, text=True, timeout=timeout)
    out = []
    for line in p.stdout.splitlines():
        try: out.append(json.loads(line))
        except Exception: out.append({"error": line[:200]})
    while len(out) < len(reqs): out.append({"error": "no answer (process died)", "stderr": p.stderr[-300:]})
    return out


def finish(prop, tier, seed, level, results, t0, functions, assumptions, trusted_base, checker_cmd,
           extra_cov=None, explanation=""):
    """Classify, write evidence, print, return exit code."""
    os.makedirs(EVID, exist_ok=True)
    os.makedirs(REPLAYS, exist_ok=True)
    open_known, _fixed = load_known()
    known_for = {(p, o): what for p, o, what in open_known}
    refuted = [r for r in results if r.status == "refuted"]
    attempted = [r for r in results if getattr(r, "optional", False) and r.status != "refuted"]
    results = [r for r in results if r not in attempted]
    proof = [r for r in results if r.bounded is None and r.backend != "guard"]
    bounded = [r for r in results if r.bounded is not None]
    guards = [r for r in results if r.backend == "guard"]
    undecided = [r for r in results if r.status not in ("discharged", "refuted", "vacuity-ok", "ok")]
    violations, known_hits = [], []
    for r in refuted:
        if (prop, r.name) in known_for: known_hits.append(r)
        else: violations.append(r)
    # baseline (count / names must match, > 0)
    base = load_baseline().get(prop)
    names = sorted(r.name for r in results)
    drift = None
    if base is not None and sorted(base) != names:
        missing = sorted(set(base) - set(names)); extra = sorted(set(names) - set(base))
        # the baseline lists the quick tier's obligations; the thorough tier adds obligations (wider windows, larger bounds) on top of them
        if missing or (extra and tier != "thorough"): drift = {"missing": missing, "extra": extra}
    lines = []
    for r in sorted(results, key=lambda r: r.name):
        tag = {"discharged": "ok ", "vacuity-ok": "ok ", "ok": "ok ", "refuted": "REFUTED"}.get(r.status, "UNDECIDED")
        b = " [bounded: %s]" % r.bounded if r.bounded else ""
        lines.append("  %-9s %-3s %-62s %6.2fs %s%s" % (tag, r.backend, r.name, r.time, r.solver, b))
    print("\n".join(lines))
    code = 0
    for r in known_hits:
        print("KNOWN-FINDING: property=%s obligation=%s %s" % (prop, r.name, known_for[(prop, r.name)]))
    for r in violations:
        path = os.path.join(REPLAYS, "%s-%s.json" % (prop, re.sub(r"[^A-Za-z0-9_.-]", "_", r.name)))
        reproduced = bool(r.replay and r.replay.get("reproduced"))
        with open(path, "w") as f:
            json.dump({"property": prop, "obligation": r.name, "backend": r.backend, "unit": r.unit,
                       "counterexample": r.counterexample, "replay_on_real_code": r.replay,
                       "reproduced": reproduced, "verifier_output": r.detail[-6000:], "artifact": r.file}, f, indent=1, default=str)
        tail = "" if reproduced else " no-failing-input-found"
        print("VIOLATION property=%s replay=%s obligation=%s%s" % (prop, path, r.name, tail))
        code = 1
    if code == 0 and (undecided or drift):
        code = 2
        for r in undecided:
            print("UNDECIDED property=%s obligation=%s status=%s %s" % (prop, r.name, r.status, r.detail[-300:].replace("\n", " | ")))
        if drift:
            print("UNDECIDED property=%s obligation set differs from contracts/baseline.json: %s" % (prop, json.dumps(drift)))
    # an obligation that is refuted and recorded as an OPEN known finding is reported under known_findings_hit, not among the proof obligations
    proof = [r for r in proof if r not in known_hits]
    n_ob = len(proof)
    n_dis = len([r for r in proof if r.status == "discharged"])
    cov = {
        "obligations": n_ob,
        "discharged": n_dis,
        "checker_cmd": checker_cmd,
        "trusted_base": trusted_base,
        "functions_under_contract": functions,
        "obligation_table": [r.row() for r in sorted(results, key=lambda r: r.name)],
        "bounded_standins": [r.row() for r in bounded],
        "vacuity_guards": [r.row() for r in guards],
        "solver_time_s": round(sum(r.time for r in results), 2),
        "samples": [r.row() for r in proof[:3]] + [r.row() for r in bounded[:2]],
        "exhaustive": False,
        "explanation": explanation,
    }
    if attempted: cov["attempted_not_verified"] = [r.row() for r in attempted]
    if known_hits: cov["known_findings_hit"] = [{"obligation": r.name, "finding": known_for[(prop, r.name)][:400]} for r in known_hits]
    if extra_cov: cov.update(extra_cov)
    ev = {"property_id": prop, "tier": tier, "seed": int(seed), "level": level, "coverage": cov,
          "assumptions": assumptions, "wall_s": round(time.time() - t0, 2), "violations": len(violations)}
    with open(os.path.join(EVID, prop + ".json"), "w") as f:
        json.dump(ev, f, indent=1, default=str)
    print("%s tier=%s: %d/%d proof obligations discharged, %d bounded stand-ins, %d vacuity guards, %d refuted, %d undecided; wall %.1fs; exit %d"
          % (prop, tier, n_dis, n_ob, len(bounded), len(guards), len(refuted), len(undecided), time.time() - t0, code))
    return code


def unit_or_undecided(name, backend, unit, fn):
    """Run the obligation generator of ONE unit. If its annotated shape no longer fits the source (lost anchor) or the source left the
    evaluator's subset, that unit alone becomes one undecided result (never an alarm); the other units of the check, and its bounded
    stand-ins on the real code, still run. Returns (value of fn or None, [Result])."""
    from .symex import Unsupported
    try:
        return fn(), []
    except (Undecided, Unsupported) as e:
        return None, [Result(name, backend, "undecided", 0.0, "", "%s: %s" % (type(e).__name__, e), unit)]


def from_smt(ob, replay_fn=None):
    """smt.Obligation → Result (and run the replay for refuted ones)."""
    backend = "guard" if ob.expect_sat else "E2"
    status = ob.status
    if status == "vacuous": status = "refuted-vacuity"
    if getattr(ob, "optional", False) and status == "undecided": status = "attempted-not-verified"
    r = Result(ob.name, backend, status, ob.time, ob.solver or "", ob.output, ob.unit or "", None, ob.model, None, ob.file)
    r.optional = bool(getattr(ob, "optional", False))
    if ob.status == "refuted" and (replay_fn or ob.replay):
        try:
            r.replay = (ob.replay or replay_fn)(ob)
        except Exception as e:  # replay trouble must not mask the refutation
            r.replay = {"reproduced": False, "error": repr(e)}
    if r.status == "refuted" and "syntactic" in (ob.note or "") and not (r.replay and r.replay.get("reproduced")):
        # a syntactic anchor / frame check that no longer matches the source says the text has changed shape, not that the property is broken:
        # undecided (exit 2), never an alarm. The semantic contracts next to it decide.
        r.status = "undecided"
        r.detail = "syntactic anchor/frame check does not match the current source: " + (ob.note or "")
    if r.status == "refuted" and getattr(ob, "havoc", False) and not (r.replay and r.replay.get("reproduced")):
        # the slice was evaluated in tolerant mode and the refuting model involves a value the evaluator replaced by an unconstrained
        # one: the model may be spurious, so it counts only if it replays on the real code. Otherwise: undecided, never an alarm.
        r.status = "undecided"
        r.detail = "refuting model involves havoc'd (unmodelled) values and did not replay on the real code\n" + (r.detail or "")
    return r
