"""`check --replay <replay.json>`: re-run a recorded violation against /repo's current working tree.

1. if the file carries concrete requests for the replay crate (the counterexample input), they are re-executed on the real
   crate (built from the current tree with --cfg meshless_voro_verif) and the real code's answers are printed;
2. the obligation named in the file is re-decided by re-running its property's check; exit 1 with the VIOLATION line if it is
   still refuted, exit 0 if it is discharged now, exit 2 if undecided."""
import json, os, subprocess, sys
from .extract import VERIF


def _requests(d, out):
    if isinstance(d, dict):
        if "op" in d and isinstance(d.get("op"), str): out.append(d)
        for k, v in d.items():
            if k in ("request", "input") and isinstance(v, dict) and "op" not in v:
                pass
            _requests(v, out)
    elif isinstance(d, list):
        for x in d: _requests(x, out)


def main(path):
    d = json.load(open(path))
    prop, obl = d["property"], d["obligation"]
    print("replay: property=%s obligation=%s backend=%s" % (prop, obl, d.get("backend")))
    if d.get("counterexample") is not None:
        print("counterexample: %s" % json.dumps(d["counterexample"], default=str)[:2000])
    reqs = []
    _requests(d.get("replay_on_real_code"), reqs)
    if reqs:
        from .runner import replay_requests
        try:
            for rq, a in zip(reqs[:8], replay_requests(reqs[:8], timeout=300)):
                print("real code: %s\n        -> %s" % (json.dumps(rq)[:600], json.dumps(a)[:1200]))
        except Exception as e:
            print("replay crate: %r" % e)
    elif d.get("replay_on_real_code"):
        print("recorded replay on the real code: %s" % json.dumps(d["replay_on_real_code"], default=str)[:2000])
    p = subprocess.run([os.path.join(VERIF, "check"), prop, "--tier", "quick"], cwd=VERIF, capture_output=True, text=True)
    lines = [l for l in p.stdout.splitlines() if obl in l]
    for l in lines: print(l)
    viol = [l for l in lines if l.startswith("VIOLATION")]
    if viol: return 1
    if any(l.strip().startswith("ok") for l in lines): 
        print("obligation %s is discharged on the current tree" % obl); return 0
    print("obligation %s: undecided / not present on the current tree (check exit %d)" % (obl, p.returncode))
    return 2
