"""`ring` — a fourth E2 back end: decides goals that are (conjunctions of) polynomial / rational identities
by exact normalisation over Q, modulo the defining relations of sqrt- and abs-atoms (s^2 = x, u^2 = x^2).

It answers only `unsat` (identity holds wherever all denominators are non-zero — the separate `.defined`
obligations prove they are) or `unknown`; refutations always come from an SMT model. ITEs are resolved only
when their condition (or its negation) is literally among the assumptions.
"""
from fractions import Fraction
from . import terms as tm


class Poly:
    __slots__ = ("t",)

    def __init__(self, t=None): self.t = t or {}

    @staticmethod
    def const(c):
        c = Fraction(c)
        if c.denominator == 1: c = int(c)
        return Poly({(): c} if c != 0 else {})
    @staticmethod
    def var(i): return Poly({((i, 1),): 1})
    def is_zero(self): return not self.t

    def __add__(self, o):
        r = dict(self.t)
        for m, c in o.t.items():
            v = r.get(m, 0) + c
            if v == 0: r.pop(m, None)
            else: r[m] = v
        return Poly(r)

    def __neg__(self): return Poly({m: -c for m, c in self.t.items()})
    def __sub__(self, o): return self + (-o)

    def __mul__(self, o):
        if len(self.t) > len(o.t): return o * self
        r = {}
        for m1, c1 in self.t.items():
            for m2, c2 in o.t.items():
                m = mul_mono(m1, m2)
                v = r.get(m, 0) + c1 * c2
                if v == 0: r.pop(m, None)
                else: r[m] = v
        return Poly(r)

    def key(self): return frozenset(self.t.items())


def mul_mono(a, b):
    if not a: return b
    if not b: return a
    d = dict(a)
    for v, e in b: d[v] = d.get(v, 0) + e
    return tuple(sorted(d.items()))


class Budget(Exception):
    pass


class Norm:
    """Rational functions num / prod(atom^k) with interned denominator atoms."""
    def __init__(self, limit=400000):
        self.vars, self.atoms, self.atom_ids = {}, [], {}
        self.rel = {}       # var index -> RF it squares to
        self.limit = limit
        self.memo = {}

    def var(self, name):
        if name not in self.vars: self.vars[name] = len(self.vars)
        return self.vars[name]

    def atom(self, p):
        k = p.key()
        if k not in self.atom_ids:
            self.atom_ids[k] = len(self.atoms); self.atoms.append(p)
        return self.atom_ids[k]

    # RF = (Poly num, dict atom->power)
    def lift(self, n, d, den):
        """numerator n over den d, brought to denominator den (den >= d componentwise)"""
        for a, k in den.items():
            for _ in range(k - d.get(a, 0)):
                n = n * self.atoms[a]
                if len(n.t) > self.limit: raise Budget()
        return n

    def add(self, x, y, sign=1):
        (n1, d1), (n2, d2) = x, y
        den = dict(d1)
        for a, k in d2.items(): den[a] = max(den.get(a, 0), k)
        a1, a2 = self.lift(n1, d1, den), self.lift(n2, d2, den)
        return (a1 + a2 if sign > 0 else a1 - a2, den)

    def mul(self, x, y):
        (n1, d1), (n2, d2) = x, y
        den = dict(d1)
        for a, k in d2.items(): den[a] = den.get(a, 0) + k
        n = n1 * n2
        if len(n.t) > self.limit: raise Budget()
        return (n, den)

    def inv(self, x):
        n, d = x
        # 1 / (n / D) = D / n : n becomes an atom, D goes to the numerator
        num = Poly.const(1)
        for a, k in d.items():
            for _ in range(k): num = num * self.atoms[a]
        if not n.t: raise ZeroDivisionError
        if len(n.t) == 1 and () in n.t:
            return (num * Poly.const(1 / Fraction(n.t[()])), {})
        return (num, {self.atom(n): 1})

    def conv(self, t, facts):
        if t in self.memo: return self.memo[t]
        op = t.op
        if op == "const": r = (Poly.const(t.args[0]), {})
        elif op == "var": r = (Poly.var(self.var(t.args[0])), {})
        elif op in ("id", "to_real"): r = self.conv(t.args[0], facts)
        elif op == "+": r = self.add(self.conv(t.args[0], facts), self.conv(t.args[1], facts))
        elif op == "-": r = self.add(self.conv(t.args[0], facts), self.conv(t.args[1], facts), -1)
        elif op == "*": r = self.mul(self.conv(t.args[0], facts), self.conv(t.args[1], facts))
        elif op == "neg":
            n, d = self.conv(t.args[0], facts); r = (-n, d)
        elif op == "/":
            r = self.mul(self.conv(t.args[0], facts), self.inv(self.conv(t.args[1], facts)))
        elif op == "ite":
            c, a, b = t.args
            if c in facts: r = self.conv(a, facts)
            elif tm.Not(c) in facts: r = self.conv(b, facts)
            elif a == tm.Neg(b) or b == tm.Neg(a) or (a.op == "neg" and a.args[0] == b) or (b.op == "neg" and b.args[0] == a):
                # |x|-like: a fresh atom u with u^2 = a^2
                name = "abs!%d" % len(self.vars)
                i = self.var(name)
                self.rel[i] = self.mul(self.conv(a, facts), self.conv(a, facts))
                r = (Poly.var(i), {})
            else:
                raise Budget()
        else:
            raise Budget()
        self.memo[t] = r
        return r

    def reduce(self, x):
        """Apply v^2 -> rel[v] until no variable with a relation has exponent >= 2."""
        n, d = x
        for _ in range(64):
            hit = None
            for m in n.t:
                for v, e in m:
                    if e >= 2 and v in self.rel: hit = v; break
                if hit is not None: break
            if hit is None: return (n, d)
            acc = (Poly(), {})
            groups = {}
            for m, c in n.t.items():
                e = dict(m).get(hit, 0)
                rest = tuple((v, k) for v, k in m if v != hit)
                groups.setdefault(e, Poly()).t[rest] = c
            E = self.rel[hit]
            for e, p in groups.items():
                term = (p, {})
                if e % 2: term = self.mul(term, (Poly.var(hit), {}))
                for _ in range(e // 2): term = self.mul(term, E)
                acc = self.add(acc, term)
            n = acc[0]
            # denominators only multiply the numerator's zero-ness trivially
            d = acc[1]
        raise Budget()


def flatten_facts(assumptions):
    facts = set()
    stack = list(assumptions)
    while stack:
        a = stack.pop()
        if a.op == "and": stack.extend(a.args)
        else: facts.add(a)
    return facts


def sqrt_relations(assumptions):
    """Recognise  (x >= 0) => (s >= 0 and s*s = x)  definitions emitted by symex.sqrt."""
    rel = {}
    for a in assumptions:
        if a.op == "or" and len(a.args) == 2:
            for body in a.args:
                if body.op == "and":
                    for e in body.args:
                        if e.op == "=" and e.args[0].op == "*" and e.args[0].args[0] == e.args[0].args[1] and e.args[0].args[0].op == "var":
                            rel[e.args[0].args[0].args[0]] = e.args[1]
    return rel


def prove(assumptions, goal, limit=400000):
    """True if goal (an equality or conjunction of equalities) is an identity modulo the sqrt/abs relations."""
    facts = flatten_facts(assumptions)
    eqs = list(goal.args) if goal.op == "and" else [goal]
    if not eqs or any(e.op != "=" or e.args[0].sort == "Bool" for e in eqs): return False
    nm = Norm(limit)
    try:
        for name, arg in sqrt_relations(assumptions).items():
            # the relation is only usable where arg >= 0 is known; the `.defined` obligation proves that separately
            nm.rel[nm.var(name)] = None
        pending = sqrt_relations(assumptions)
        for name, arg in pending.items():
            nm.rel[nm.var(name)] = nm.conv(arg, facts)
        for e in eqs:
            x = nm.add(nm.conv(e.args[0], facts), nm.conv(e.args[1], facts), -1)
            x = nm.reduce(x)
            if not x[0].is_zero(): return False
        return True
    except (Budget, ZeroDivisionError, RecursionError):
        return False
