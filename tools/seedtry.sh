#!/bin/bash
# seedtry.sh <patch.diff> <Cxx> [tier]  -- run a check against a scratch copy of /repo with the patch applied (copy removed afterwards)
set -u
patch=$1; prop=$2; tier=${3:-quick}
d=$(mktemp -d /tmp/seedtry-XXXXXX)
git -C /repo archive HEAD | tar -x -C $d
(cd $d && git init -q && git apply --whitespace=nowarn "$patch") || { echo "patch does not apply"; rm -rf $d; exit 3; }
VERIF_REPO=$d VERIF_EVIDENCE_DIR=$d/ev VERIF_REPLAY_DIR=$d/rp /verif/check $prop --tier $tier 2>&1 | grep -v "^  ok\|^WARNING" | cut -c1-${COLS:-400}
rc=${PIPESTATUS[0]}
if [ "${KEEP:-0}" = 1 ]; then echo "kept $d"; else
  tag=$(python3 -c "import hashlib,sys; print(hashlib.sha256(sys.argv[1].encode()).hexdigest()[:8])" $d)
  rm -rf /verif/.build/*-$tag /verif/.build/*-$tag-* $d
fi
exit $rc
