#!/usr/bin/env python3
"""Run every kept seeded change (seeded/<id>/patch.diff) against the checks: its own property's check always, every other check with
--all. Each run uses a scratch copy of /repo (outside /repo and /verif, removed afterwards). Writes seeded/MATRIX.json.

  seedmatrix.py [--all] [--jobs N] [ids...]
"""
import json, os, subprocess, sys, re, tempfile, shutil, hashlib
from concurrent.futures import ThreadPoolExecutor
V = os.path.dirname(os.path.dirname(os.path.abspath(__file__)))
PROPS = ["C03", "C04", "C05", "C06", "C07", "C08", "C10", "C11", "C12", "C13", "C14", "C15", "C16", "C17", "C18", "C19", "C20"]


SUB = "seeded"


def run(sid, prop):
    d = tempfile.mkdtemp(prefix="seedmx-", dir="/tmp")
    try:
        subprocess.run("git -C /repo archive HEAD | tar -x -C %s" % d, shell=True, check=True)
        subprocess.run(["git", "init", "-q"], cwd=d)
        a = subprocess.run(["git", "apply", "--whitespace=nowarn", os.path.join(V, SUB, sid, "patch.diff")], cwd=d, capture_output=True, text=True)
        if a.returncode != 0: return {"seed": sid, "check": prop, "error": "patch does not apply: " + a.stderr[-200:]}
        env = dict(os.environ, VERIF_REPO=d, VERIF_EVIDENCE_DIR=os.path.join(d, "ev"), VERIF_REPLAY_DIR=os.path.join(d, "rp"))
        c = subprocess.run([os.path.join(V, "check"), prop, "--tier", "quick"], cwd=V, env=env, capture_output=True, text=True)
        out = c.stdout
        refuted = [l.split()[2] for l in out.splitlines() if l.strip().startswith("REFUTED")]
        viol = [l for l in out.splitlines() if l.startswith("VIOLATION")]
        repro = [l.split("obligation=")[1].split()[0] for l in viol if not l.rstrip().endswith("no-failing-input-found")]
        und = [l for l in out.splitlines() if l.startswith("UNDECIDED property")]
        return {"seed": sid, "check": prop, "exit": c.returncode, "refuted": refuted, "reproduced_on_real_code": repro,
                "undecided": [u[:240] for u in und[:3]]}
    finally:
        tag = "-" + hashlib.sha256(d.encode()).hexdigest()[:8]
        import glob
        for x in glob.glob(os.path.join(V, ".build", "*" + tag)) + glob.glob(os.path.join(V, ".build", "*" + tag + "-*")):
            (os.remove(x) if os.path.isfile(x) else shutil.rmtree(x, ignore_errors=True))
        shutil.rmtree(d, ignore_errors=True)


def main():
    global SUB
    args = sys.argv[1:]
    if "--refactors" in args: SUB = "refactors"      # behaviour-preserving changes: every check must stay quiet (exit 0, or 2 = undecided; never 1)
    allp = "--all" in args
    jobs = int(args[args.index("--jobs") + 1]) if "--jobs" in args else 4
    pat = r"RF\d-r\d$" if SUB == "refactors" else r"C\d\d-[a-z]$"
    ids = [a for a in args if re.match(pat, a)] or sorted(x for x in os.listdir(os.path.join(V, SUB)) if re.match(pat, x))
    work = []
    for sid in ids:
        own = sid.split("-")[0]
        for p in (PROPS if (allp or SUB == "refactors") else [own]): work.append((sid, p))
    path = os.path.join(V, SUB, "MATRIX.json")
    old = json.load(open(path)) if os.path.exists(path) else {"runs": []}
    keep = [r for r in old["runs"] if (r["seed"], r["check"]) not in set(work)]
    with ThreadPoolExecutor(jobs) as ex:
        res = list(ex.map(lambda w: run(*w), work))
    for r in res: print(json.dumps(r), flush=True)
    allr = sorted(keep + res, key=lambda r: (r["seed"], r["check"]))
    head = subprocess.run(["git", "-C", "/repo", "rev-parse", "--short", "HEAD"], capture_output=True, text=True).stdout.strip()
    json.dump({"repo_head": head, "how": "tools/seedmatrix.py: patch applied to a scratch copy of /repo, `check <Cxx> --tier quick` run against it (VERIF_REPO), copy removed",
               "runs": allr}, open(path, "w"), indent=1)
    if SUB == "refactors":
        print("behaviour-preserving changes: %d runs, %d quiet (exit 0), %d undecided (exit 2), %d FALSE ALARMS (exit 1)" % (
            len(allr), sum(r.get("exit") == 0 for r in allr), sum(r.get("exit") == 2 for r in allr), sum(r.get("exit") == 1 for r in allr)))
        return
    own = [r for r in allr if r["check"] == r["seed"].split("-")[0]]
    print("own-property detection: %d/%d VIOLATION (exit 1), %d undecided (exit 2), %d missed (exit 0)" % (
        sum(r.get("exit") == 1 for r in own), len(own), sum(r.get("exit") == 2 for r in own), sum(r.get("exit") == 0 for r in own)))


if __name__ == "__main__":
    main()
