#!/usr/bin/env python3
"""Confirm a seeded property-breaking change and run the checks against it.

  seedcheck.py confirm <seed-dir> [--features "<cargo feature args>"]
      in a scratch worktree of /repo (outside /repo and /verif, removed afterwards):
      patch applies; existing suite unchanged (same pass/fail set as on the clean tree); demo passes clean, fails patched
  seedcheck.py detect <seed-dir> <Cxx> [<Cyy> ...]
      apply the patch to a scratch copy and run the named checks against it (vlib.audit.run_patch); prints one line per check

<seed-dir> holds patch.diff and demo.rs (and gets meta.json written by hand / by `record`).
"""
import json, os, re, shutil, subprocess, sys, tempfile
sys.path.insert(0, os.path.dirname(os.path.dirname(os.path.abspath(__file__))))

ENV = dict(os.environ, CARGO_NET_OFFLINE="true")


def sh(cmd, cwd, timeout=1800):
    p = subprocess.run(cmd, shell=True, cwd=cwd, env=ENV, capture_output=True, text=True, timeout=timeout)
    return p.returncode, p.stdout + p.stderr


def suite(wt, feats):
    rc, out = sh("cargo test --offline --no-fail-fast %s 2>&1" % feats, wt)
    res = {}
    for m in re.finditer(r"^test (\S+) \.\.\. (ok|FAILED|ignored)", out, re.M):
        res[m.group(1)] = m.group(2)
    return res, out


def confirm(seed, feats="", demo_feats=None, paste=None, filt=None):
    """paste/filt: the demonstration is a unit test to be pasted at the end of `mod tests` of the private module file `paste` (C20)."""
    seed = os.path.abspath(seed)
    demo_feats = feats if demo_feats is None else demo_feats
    tmp = tempfile.mkdtemp(prefix="seedchk-", dir="/tmp")
    wt = os.path.join(tmp, "wt")
    ENV["CARGO_TARGET_DIR"] = os.path.join(tmp, "target")
    rep = {"seed": seed}
    try:
        subprocess.run(["git", "-C", "/repo", "worktree", "add", "-q", "--detach", wt, "HEAD"], check=True)
        name = "demo_seed"
        if paste:
            def add_demo():
                fp = os.path.join(wt, paste); t = open(fp).read().rstrip()
                assert t.endswith("}")
                open(fp, "w").write(t[:-1] + "\n" + open(os.path.join(seed, "demo.rs")).read() + "\n}\n")
            base, _ = suite(wt, feats)
            add_demo()
            demo_cmd = "cargo test --offline --lib %s %s 2>&1" % (filt, demo_feats)
        else:
            shutil.copy(os.path.join(seed, "demo.rs"), os.path.join(wt, "tests", name + ".rs"))
            base, _ = suite(wt, feats)
            demo_cmd = "cargo test --offline --test %s %s 2>&1" % (name, demo_feats)
        rc, out = sh(demo_cmd, wt)
        if paste and not re.search(r"test result: ok\. [1-9]", out): rc = 1   # the filter must select at least one test
        rep["demo_clean_passes"] = rc == 0
        if rc != 0: rep["demo_clean_tail"] = out[-1500:]
        a = subprocess.run(["git", "apply", os.path.join(seed, "patch.diff")], cwd=wt, capture_output=True, text=True)
        rep["patch_applies"] = a.returncode == 0
        if a.returncode != 0:
            rep["apply_err"] = a.stderr; return rep
        pat, pout = suite(wt, feats) if not paste else (None, None)
        if paste:
            # suite on the patched tree WITHOUT the pasted demo, then paste it again
            sh("git checkout -- %s" % paste, wt)
            a2 = subprocess.run(["git", "apply", os.path.join(seed, "patch.diff")], cwd=wt, capture_output=True, text=True)
            pat, pout = suite(wt, feats)
            add_demo()
        rep["compiles"] = bool(pat)
        if not pat: rep["build_tail"] = pout[-1500:]
        diff = {k: (base.get(k), pat.get(k)) for k in set(base) | set(pat) if base.get(k) != pat.get(k) and not k.startswith("demo_") and "test_non_perturbed_z" not in k
                and not any(k == d for d in pat if d not in base and False)}
        # the demo's own tests are in the suite run too: drop them from the comparison
        demo_tests = set(re.findall(r"fn\s+(\w+)\s*\(", open(os.path.join(seed, "demo.rs")).read()))
        diff = {k: v for k, v in diff.items() if k.split("::")[-1] not in demo_tests}
        rep["suite_unchanged"] = not diff
        rep["suite_diff"] = diff
        rep["suite_counts"] = {"clean_ok": sum(v == "ok" for v in base.values()), "patched_ok": sum(v == "ok" for v in pat.values())}
        rc, out = sh(demo_cmd, wt)
        rep["demo_patched_fails"] = rc != 0
        rep["demo_patched_tail"] = "\n".join(l for l in out.splitlines() if re.match(r"test |test result|thread ", l))[-1200:]
        rep["confirmed"] = bool(rep["demo_clean_passes"] and rep["compiles"] and rep["suite_unchanged"] and rep["demo_patched_fails"])
        return rep
    finally:
        subprocess.run(["git", "-C", "/repo", "worktree", "remove", "--force", wt], capture_output=True)
        shutil.rmtree(tmp, ignore_errors=True)
        subprocess.run(["git", "-C", "/repo", "worktree", "prune"], capture_output=True)


def detect(seed, props, tier="quick"):
    from vlib import audit
    out = []
    for p in props:
        r = audit.run_patch(os.path.join(os.path.abspath(seed), "patch.diff"), p, tier)
        out.append(r)
        print("%s %s exit=%s refuted=%s %s" % (os.path.basename(os.path.dirname(os.path.abspath(seed) + "/")) , p, r.get("exit"), r.get("refuted"), (r.get("error") or r.get("tail") or "")[-600:]), flush=True)
    return out


if __name__ == "__main__":
    mode, seed = sys.argv[1], sys.argv[2]
    if mode == "confirm":
        feats = sys.argv[sys.argv.index("--features") + 1] if "--features" in sys.argv else ""
        dfe = sys.argv[sys.argv.index("--demo-features") + 1] if "--demo-features" in sys.argv else None
        paste = sys.argv[sys.argv.index("--paste") + 1] if "--paste" in sys.argv else None
        filt = sys.argv[sys.argv.index("--filter") + 1] if "--filter" in sys.argv else None
        r = confirm(seed, feats, dfe, paste, filt)
        print(json.dumps(r, indent=1))
        sys.exit(0 if r.get("confirmed") else 1)
    else:
        detect(seed, sys.argv[3:])
