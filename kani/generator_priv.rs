//! C08: `Generator::new` — contract on the real function (`kani::ensures` attribute in src/voronoi/generator.rs).
//! Mounted as a child module of `voronoi::generator` (private fields `loc`, `id`).
//!
//! Postcondition from the property statement ("the result is independent of the unused coordinates of
//! generators"): the id is kept, the coordinates along active axes are kept bit for bit, and every coordinate along
//! an unused axis is +0.0 whatever bit pattern (NaN, infinity, garbage) was passed in.
use super::Generator;
use crate::voronoi::verif_hooks::kani_harnesses::{any_dim, any_vec, dims::n_active};
use crate::voronoi::Dimensionality;
use glam::DVec3;

pub(super) fn new_post(r: &Generator, id: usize, loc: DVec3, dim: Dimensionality) -> bool {
    let d = n_active(dim);
    let keep = |new: f64, old: f64, axis: usize| {
        if axis < d {
            new.to_bits() == old.to_bits()
        } else {
            new.to_bits() == 0
        }
    };
    r.id == id && keep(r.loc.x, loc.x, 0) && keep(r.loc.y, loc.y, 1) && keep(r.loc.z, loc.z, 2)
}

#[kani::proof_for_contract(Generator::new)]
fn generator_new_contract() {
    let _ = Generator::new(kani::any(), any_vec(), any_dim());
}

/// the 2-safety reading of the same sentence, stated directly: two inputs that agree on the active coordinates
/// give bit-identical generators
#[kani::proof]
fn generator_new_ignores_unused_coordinates() {
    let (id, dim) = (kani::any(), any_dim());
    let (a, b) = (any_vec(), any_vec());
    let d = n_active(dim);
    kani::assume(a.x.to_bits() == b.x.to_bits());
    kani::assume(d < 2 || a.y.to_bits() == b.y.to_bits());
    kani::assume(d < 3 || a.z.to_bits() == b.z.to_bits());
    let (ga, gb) = (Generator::new(id, a, dim), Generator::new(id, b, dim));
    assert!(ga.id == gb.id);
    assert!(ga.loc.x.to_bits() == gb.loc.x.to_bits());
    assert!(ga.loc.y.to_bits() == gb.loc.y.to_bits());
    assert!(ga.loc.z.to_bits() == gb.loc.z.to_bits());
}

#[kani::proof]
fn generator_new_cover() {
    let (loc, dim) = (any_vec(), any_dim());
    let g = Generator::new(7, loc, dim);
    kani::cover!(n_active(dim) == 1 && loc.y.is_nan() && g.loc.y == 0.0, "NaN in an unused slot is erased");
    kani::cover!(n_active(dim) == 3 && g.loc.z.is_nan(), "3D keeps everything");
}
