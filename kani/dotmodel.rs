//! Modular treatment of glam's `DVec3::dot` (an external function we cannot annotate).
//!
//! `dot_contract` is the contract; `half_space_priv::glam_dot_satisfies_dot_contract` proves it on the real
//! function for all 2^384 inputs. Harnesses of callers replace `DVec3::dot` by `dot_model` (`#[kani::stub]`):
//! an arbitrary *function* of its arguments satisfying the contract — a memo table makes repeated calls with
//! bit-identical arguments return the same value, so postconditions that mention `n.dot(p)` talk about the value
//! the code computed. Callers therefore see only the contract, as with `stub_verified`.
use super::{same_bits, within};
use glam::DVec3;

/// normals are unit vectors (|c| <= 1); allow some slack
pub(crate) const N_MAX: f64 = 4.0;
/// positions: anything whose products stay far from overflow
pub(crate) const P_MAX: f64 = 1e150;

fn nonneg(v: DVec3) -> bool {
    v.x >= 0.0 && v.y >= 0.0 && v.z >= 0.0
}

pub(crate) fn dot_contract(a: DVec3, b: DVec3, r: f64) -> bool {
    let in_range = within(a, N_MAX) && within(b, P_MAX);
    // (a) in range: finite and bounded; (b) of two non-negative vectors: non-negative
    (!in_range || (r.is_finite() && r.abs() <= 16.0 * P_MAX)) && (!(in_range && nonneg(a) && nonneg(b)) || r >= 0.0)
}

const SLOTS: usize = 3;

pub(crate) struct Memo {
    used: usize,
    a: [DVec3; SLOTS],
    b: [DVec3; SLOTS],
    r: [f64; SLOTS],
}

pub(crate) static mut MEMO: Memo = Memo { used: 0, a: [DVec3::ZERO; SLOTS], b: [DVec3::ZERO; SLOTS], r: [0.0; SLOTS] };

/// for `kani::modifies` clauses of functions whose contract harness runs under the dot model
pub(crate) fn memo() -> *mut Memo {
    &raw mut MEMO
}

/// contract instrumentation havocs statics: every harness using the model starts from an empty table
pub(crate) fn reset() {
    unsafe {
        (*memo()).used = 0;
    }
}

pub(crate) fn dot_model(a: DVec3, b: DVec3) -> f64 {
    unsafe {
        let m = &mut *memo();
        if m.used > 0 && same_bits(m.a[0], a) && same_bits(m.b[0], b) {
            return m.r[0];
        }
        if m.used > 1 && same_bits(m.a[1], a) && same_bits(m.b[1], b) {
            return m.r[1];
        }
        if m.used > 2 && same_bits(m.a[2], a) && same_bits(m.b[2], b) {
            return m.r[2];
        }
        let r: f64 = kani::any();
        kani::assume(dot_contract(a, b, r));
        assert!(m.used < SLOTS, "dot model: memo table large enough");
        let k = m.used;
        m.a[k] = a;
        m.b[k] = b;
        m.r[k] = r;
        m.used = k + 1;
        r
    }
}

/// `stub_verified` havocs the `modifies` targets of the replaced function: a havocked memo table is an empty one
/// (forgetting earlier answers only makes the model more permissive)
impl kani::Arbitrary for Memo {
    fn any() -> Self {
        Memo { used: 0, a: [DVec3::ZERO; SLOTS], b: [DVec3::ZERO; SLOTS], r: [0.0; SLOTS] }
    }
}
