//! C06 / C08 / C10: `SimulationBoundary::cuboid` — bit-precise, loop-free, on the real function.
//! Mounted as a child module of `voronoi::boundary` (private fields `anchor`, `inverse_width`).
//!
//! From the property statements: the initial cell is the box, tripled along exactly the active axes when periodic
//! (walls at `anchor - width` and `anchor + 2 width`), untouched along the other axes; walls are axis-aligned,
//! inward, carry no neighbour and no shift. (That the integer-grid domain built from the private fields contains
//! every queryable position is the `iloc_domain_*` contract in boundary.rs, which runs `cuboid` and `iloc` together.)
//! `HalfSpace::new` is replaced by its verified contract (`stub_verified`): `cuboid` is checked against the
//! callee's contract, not its body.
use super::{HalfSpace, SimulationBoundary};
use crate::voronoi::verif_hooks::kani_harnesses::{any_dim, dims::n_active, same_bits};
use crate::voronoi::Dimensionality;
use glam::DVec3;

fn comp(v: DVec3, axis: usize) -> f64 {
    match axis {
        0 => v.x,
        1 => v.y,
        _ => v.z,
    }
}

fn unit(axis: usize, s: f64) -> DVec3 {
    match axis {
        0 => DVec3::new(s, 0.0, 0.0),
        1 => DVec3::new(0.0, s, 0.0),
        _ => DVec3::new(0.0, 0.0, s),
    }
}

fn ok1(a: f64, w: f64, wlo: f64, whi: f64, ratio: f64) -> bool {
    a.is_finite() && w.is_finite() && w >= wlo && w <= whi && a.abs() <= ratio * w
}

/// the postcondition of `cuboid`, one axis at a time
fn cuboid_post_axis(b: &SimulationBoundary, a: DVec3, w: DVec3, periodic: bool, dim: Dimensionality, axis: usize) -> bool {
    let (a1, w1) = (comp(a, axis), comp(w, axis));
    let tripled = periodic && axis < n_active(dim);
    // bit-precise: the min wall is the correctly rounded `anchor - width`; the max wall is min wall + 3 * width as the
    // floats give it (that this is `anchor + 2 width` over the reals is E2's obligation on the same function)
    let (lo, hi) = if tripled { (a1 - w1, (a1 - w1) + w1 * 3.0) } else { (a1, a1 + w1) };
    let (min_wall, max_wall) = (&b.clipping_planes[2 * axis], &b.clipping_planes[2 * axis + 1]);
    // walls: position, inward axis normal, no neighbour, no shift
    let walls = comp(min_wall.plane.p, axis).to_bits() == lo.to_bits()
        && comp(max_wall.plane.p, axis).to_bits() == hi.to_bits()
        && hi > lo
        && same_bits(min_wall.plane.n, unit(axis, 1.0))
        && same_bits(max_wall.plane.n, unit(axis, -1.0))
        && min_wall.right_idx.is_none() && max_wall.right_idx.is_none()
        && min_wall.shift.is_none() && max_wall.shift.is_none();
    walls
}

macro_rules! cuboid_harness {
    ($name:ident, $axis:expr, $wlo:expr, $whi:expr, $ratio:expr) => {
        #[kani::proof]
        #[kani::stub_verified(HalfSpace::new)]
        fn $name() {
            // the axis under contract is fully symbolic; the other two are the concrete unit box (the map is
            // component-wise; E2 proves the same postcondition over the reals with all three axes symbolic)
            let (a1, w1): (f64, f64) = (kani::any(), kani::any());
            kani::assume(ok1(a1, w1, $wlo, $whi, $ratio));
            let (a, w) = (unit($axis, a1), unit($axis, w1) + (DVec3::ONE - unit($axis, 1.0)));
            let (periodic, dim) = (kani::any(), any_dim());
            let b = SimulationBoundary::cuboid(a, w, periodic, dim);
            assert!(b.clipping_planes.len() == 6);
            assert!(b.dimensionality == dim);
            assert!(cuboid_post_axis(&b, a, w, periodic, dim, $axis));
        }
    };
}

// quick tier: one window (complete over all bit patterns inside it)
cuboid_harness!(cuboid_contract_x_q, 0, 0.5, 4.0, 4.0);
cuboid_harness!(cuboid_contract_y_q, 1, 0.5, 4.0, 4.0);
cuboid_harness!(cuboid_contract_z_q, 2, 0.5, 4.0, 4.0);
// thorough tier: width in [1e-6, 1e6], |anchor| <= 1024 * width
cuboid_harness!(cuboid_contract_x, 0, 1e-6, 1e6, 1024.0);
cuboid_harness!(cuboid_contract_y, 1, 1e-6, 1e6, 1024.0);
cuboid_harness!(cuboid_contract_z, 2, 1e-6, 1e6, 1024.0);

/// vacuity guard: every combination of the mechanism is reachable under the precondition
#[kani::proof]
fn cuboid_cover() {
    let a = DVec3::new(kani::any(), kani::any(), kani::any());
    let w = DVec3::new(kani::any(), kani::any(), kani::any());
    kani::assume(ok1(a.x, w.x, 0.5, 4.0, 4.0) && ok1(a.y, w.y, 0.5, 4.0, 4.0) && ok1(a.z, w.z, 0.5, 4.0, 4.0));
    let (periodic, dim): (bool, _) = (kani::any(), any_dim());
    let b = SimulationBoundary::cuboid(a, w, periodic, dim);
    kani::cover!(periodic && n_active(dim) == 2 && b.clipping_planes[4].plane.p.z == a.z, "2D periodic: z untouched");
    kani::cover!(periodic && n_active(dim) == 3 && b.clipping_planes[5].plane.p.z != a.z + w.z, "3D periodic: z tripled");
    kani::cover!(!periodic, "reflective");
}
