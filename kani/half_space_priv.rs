//! C05: the floating-point filter `HalfSpace::{new, clip}` — contracts on the real functions
//! (`kani::requires/ensures` attributes in src/voronoi/half_space.rs), bit-precise, loop-free.
//! Mounted as a child module of `voronoi::half_space` (private fields `d`, `errb`).
//!
//! From the property statement ("floating-point filter with error bound, falling back to exact"; "returns finite
//! values"): for finite inputs in range the error bound is finite and strictly positive (so the debug assertion
//! cannot fire), the labels are passed through, and `clip` answers exactly one of -1, 0, +1 — 0 iff the signed
//! distance is smaller in magnitude than the error bound, otherwise its sign — never NaN.
use super::HalfSpace;
use crate::geometry::Plane;
use crate::voronoi::verif_hooks::kani_harnesses::{any_vec, dotmodel, finite, same_bits, within};
use glam::DVec3;

use dotmodel::{N_MAX, P_MAX};

pub(super) fn new_pre(n: DVec3, p: DVec3) -> bool {
    within(n, N_MAX) && within(p, P_MAX)
}

fn same_opt(a: Option<DVec3>, b: Option<DVec3>) -> bool {
    match (a, b) {
        (None, None) => true,
        (Some(a), Some(b)) => same_bits(a, b),
        _ => false,
    }
}

pub(super) fn new_post(r: &HalfSpace, n: DVec3, p: DVec3, right_idx: Option<usize>, shift: Option<DVec3>) -> bool {
    r.errb.is_finite()
        && r.errb >= HalfSpace::EPSILON
        && r.d.is_finite()
        && r.d.to_bits() == n.dot(p).to_bits()
        && same_bits(r.plane.n, n)
        && same_bits(r.plane.p, p)
        && r.right_idx == right_idx
        && same_opt(r.shift, shift)
}

/// representation invariant of a half-space produced by `new` under `new_pre`
pub(super) fn valid(h: &HalfSpace) -> bool {
    within(h.plane.n, N_MAX) && h.errb.is_finite() && h.errb > 0.0 && h.d.is_finite() && h.d.abs() <= 16.0 * P_MAX
}

pub(super) fn clip_pre(h: &HalfSpace, v: DVec3) -> bool {
    valid(h) && within(v, P_MAX)
}

pub(super) fn clip_post(h: &HalfSpace, v: DVec3, r: f64) -> bool {
    let s = h.plane.n.dot(v) - h.d; // signed distance as the filter evaluates it
    let undecided = s.abs() < h.errb;
    (r == 0.0 || r == 1.0 || r == -1.0)
        && (r == 0.0) == undecided
        && (r == 1.0) == (!undecided && s > 0.0)
        && (r == -1.0) == (!undecided && s < 0.0)
}

fn any_opt_usize() -> Option<usize> {
    if kani::any() {
        Some(kani::any())
    } else {
        None
    }
}

fn any_opt_vec() -> Option<DVec3> {
    if kani::any() {
        Some(any_vec())
    } else {
        None
    }
}

pub(super) fn any_half_space() -> HalfSpace {
    HalfSpace {
        plane: Plane { n: any_vec(), p: any_vec() },
        d: kani::any(),
        errb: kani::any(),
        right_idx: any_opt_usize(),
        shift: any_opt_vec(),
    }
}

#[kani::proof_for_contract(HalfSpace::new)]
#[kani::stub(glam::DVec3::dot, dotmodel::dot_model)]
fn half_space_new_contract() {
    dotmodel::reset();
    let _ = HalfSpace::new(any_vec(), any_vec(), any_opt_usize(), any_opt_vec());
}

#[kani::proof_for_contract(HalfSpace::clip)]
#[kani::stub(glam::DVec3::dot, dotmodel::dot_model)]
fn half_space_clip_contract() {
    dotmodel::reset();
    let h = any_half_space();
    let _ = h.clip(any_vec());
}

/// `new` establishes the invariant `clip` requires (the two contracts compose)
#[kani::proof]
#[kani::stub(glam::DVec3::dot, dotmodel::dot_model)]
fn half_space_new_establishes_clip_pre() {
    dotmodel::reset();
    let (n, p, v) = (any_vec(), any_vec(), any_vec());
    kani::assume(new_pre(n, p));
    kani::assume(within(v, P_MAX));
    let h = HalfSpace::new(n, p, None, None);
    assert!(clip_pre(&h, v));
}

/// vacuity guards: each verdict of the filter is reachable under the precondition
#[kani::proof]
#[kani::stub(glam::DVec3::dot, dotmodel::dot_model)]
fn half_space_cover() {
    dotmodel::reset();
    let (n, p, v) = (any_vec(), any_vec(), any_vec());
    kani::assume(new_pre(n, p) && within(v, P_MAX));
    let h = HalfSpace::new(n, p, None, None);
    let r = h.clip(v);
    kani::cover!(r == 0.0, "near-tie reaches the exact path");
    kani::cover!(r == 1.0, "kept");
    kani::cover!(r == -1.0, "clipped");
}


/// the assumed contract on glam's dot product used by the four harnesses above, proved on the real `DVec3::dot`
/// (bit-precise, all inputs)
#[kani::proof]
fn glam_dot_satisfies_dot_contract() {
    let (a, b) = (any_vec(), any_vec());
    kani::assume(within(a, N_MAX) && within(b, P_MAX)); // the contract says nothing outside this range
    assert!(dotmodel::dot_contract(a, b, a.dot(b)));
}

/// ghost state of the dot model (the only thing the contract harnesses may write besides their result)
pub(super) fn ghost() -> *mut dotmodel::Memo {
    dotmodel::memo()
}

impl kani::Arbitrary for HalfSpace {
    fn any() -> Self {
        any_half_space()
    }
}
