//! C10 unit 3 / C05 / C06: `SimulationBoundary::{cuboid, iloc}` — bit-precise, loop-free.
//!
//! Contract (per axis; from the property statement): for a box `anchor, width` (non-periodic) every
//! position in the CLOSED interval [anchor - width, anchor + 2*width] — generators in the closed box
//! and their mirror images through both walls, both end points attained — maps into [0, 2^52)
//! without tripping the debug assertions, and the map is monotone.
use crate::voronoi::boundary::SimulationBoundary;
use crate::voronoi::Dimensionality;
use glam::DVec3;

const LIM: i64 = 1 << 52;

fn box_ok(a: f64, w: f64, wlo: f64, whi: f64, ratio: f64) -> bool {
    a.is_finite() && w.is_finite() && w >= wlo && w <= whi && a.abs() <= ratio * w
}

/// positions the algorithm can query on one axis of a non-periodic box (closed interval, + A-ROUND slack)
fn queryable(x: f64, a: f64, w: f64) -> bool {
    let slack = w * 9.313225746154785e-10; // 2^-30 * w
    x >= a - w - slack && x <= a + 2.0 * w + slack
}

fn axis_vec(axis: usize, v: f64, other: f64) -> DVec3 {
    match axis {
        0 => DVec3::new(v, other, other),
        1 => DVec3::new(other, v, other),
        _ => DVec3::new(other, other, v),
    }
}

fn iloc_axis(axis: usize, a: f64, w: f64, x: f64) -> i64 {
    // the two other axes are the concrete unit box with the point in its middle
    let b = SimulationBoundary::cuboid(axis_vec(axis, a, 0.0), axis_vec(axis, w, 1.0), false, Dimensionality::ThreeD);
    b.iloc(axis_vec(axis, x, 0.5))[axis]
}

macro_rules! domain_harness {
    ($name:ident, $axis:expr, $wlo:expr, $whi:expr, $ratio:expr) => {
        #[kani::proof]
        fn $name() {
            let a: f64 = kani::any();
            let w: f64 = kani::any();
            let x: f64 = kani::any();
            kani::assume(box_ok(a, w, $wlo, $whi, $ratio));
            kani::assume(queryable(x, a, w));
            let i = iloc_axis($axis, a, w, x);
            assert!(i >= 0 && i < LIM);
        }
    };
}

// quick tier: one window per axis (complete proofs over that window, all bit patterns)
domain_harness!(iloc_domain_x_q, 0, 0.5, 4.0, 4.0);
domain_harness!(iloc_domain_y_q, 1, 0.5, 4.0, 4.0);
domain_harness!(iloc_domain_z_q, 2, 0.5, 4.0, 4.0);
// thorough tier: exponent windows 1e-6 .. 1e6, |anchor| <= 1024 * width
domain_harness!(iloc_domain_x_w1, 0, 1e-6, 1e-3, 1024.0);
domain_harness!(iloc_domain_x_w2, 0, 1e-3, 1.0, 1024.0);
domain_harness!(iloc_domain_x_w3, 0, 1.0, 1e3, 1024.0);
domain_harness!(iloc_domain_x_w4, 0, 1e3, 1e6, 1024.0);

#[kani::proof]
fn iloc_monotone_x() {
    let a: f64 = kani::any();
    let w: f64 = kani::any();
    let x: f64 = kani::any();
    let y: f64 = kani::any();
    kani::assume(box_ok(a, w, 0.5, 4.0, 4.0));
    kani::assume(queryable(x, a, w) && queryable(y, a, w) && x <= y);
    assert!(iloc_axis(0, a, w, x) <= iloc_axis(0, a, w, y));
}

/// vacuity guard: the precondition is satisfiable and reaches the end points
#[kani::proof]
fn iloc_domain_cover() {
    let a: f64 = kani::any();
    let w: f64 = kani::any();
    let x: f64 = kani::any();
    kani::assume(box_ok(a, w, 1e-6, 1e6, 1024.0));
    kani::assume(queryable(x, a, w));
    kani::cover!(x == a + 2.0 * w, "upper end point reachable");
    kani::cover!(x == a - w, "lower end point reachable");
}

/// finder: the mirror image of a generator ON the min wall through the max wall (no slack), used to
/// obtain a concrete failing input when iloc_domain_* is refuted.
#[kani::proof]
fn iloc_finder_mirror() {
    let a: f64 = kani::any();
    let w: f64 = kani::any();
    let g: f64 = kani::any();
    kani::assume(box_ok(a, w, 0.5, 4.0, 4.0));
    kani::assume(g >= a && g <= a + w);
    let mirror = 2.0 * (a + w) - g;
    let i = iloc_axis(0, a, w, mirror);
    assert!(i >= 0 && i < LIM);
}

