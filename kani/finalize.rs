//! C12: `Voronoi::finalize`, `VoronoiCell::{face_indices, neighbour_ids}` — BOUNDED stand-in (never counted as proved).
//!
//! These functions are iterator / `Vec<Vec<_>>` code outside the extraction subset of E1/E2, so the property's
//! sentences are asserted on the real functions for every labelling of a small raw tessellation:
//! N cells (each either constructed, i.e. carrying its own index as `from_convex_cell` stores it, or unconstructed,
//! i.e. `VoronoiCell::default()` exactly as both build routes produce it), F faces with symbolic
//! (left, right?, shift?) labels, left != right.
use crate::voronoi::{Dimensionality, Voronoi, VoronoiCell, VoronoiFace};
use glam::DVec3;

fn raw<const N: usize, const F: usize>() -> (Voronoi, [bool; N]) {
    let constructed: [bool; N] = kani::any();
    let mut voronoi_cells: Vec<VoronoiCell> = Vec::with_capacity(N);
    let mut i = 0;
    while i < N {
        voronoi_cells.push(if constructed[i] { VoronoiCell::verif_raw(i) } else { VoronoiCell::default() });
        i += 1;
    }
    let mut faces: Vec<VoronoiFace> = Vec::with_capacity(F);
    let mut f = 0;
    while f < F {
        let left: usize = kani::any();
        kani::assume(left < N);
        let right = if kani::any() {
            let r: usize = kani::any();
            kani::assume(r < N && r != left);
            Some(r)
        } else {
            None
        };
        let shift = if kani::any() { Some(DVec3::new(1.0, 0.0, 0.0)) } else { None };
        // a face has a constructed left cell (C07); its right cell may be anything
        kani::assume(constructed[left]);
        faces.push(VoronoiFace::verif_raw(left, right, shift));
        f += 1;
    }
    let v = Voronoi {
        anchor: DVec3::ZERO,
        width: DVec3::ONE,
        voronoi_cells,
        faces,
        cell_face_connections: vec![],
        dimensionality: Dimensionality::ThreeD,
        periodic: false,
    }
    .finalize();
    (v, constructed)
}

fn listed_by(f: &VoronoiFace, c: usize) -> usize {
    let mut k = 0;
    if f.left() == c {
        k += 1;
    }
    if f.right() == Some(c) && f.shift().is_none() {
        k += 1;
    }
    k
}

/// offsets are prefix sums of the face counts, the total is the array length, and each cell's slice lists
/// exactly the faces it is the left (or unshifted right) cell of, in face order
fn check_structure<const N: usize, const F: usize>() {
    let (v, _) = raw::<N, F>();
    let mut off = 0;
    let mut c = 0;
    while c < N {
        let cell = &v.voronoi_cells[c];
        assert!(cell.face_connections_offset() == off);
        let idx = cell.face_indices(&v);
        assert!(idx.len() == cell.face_count());
        // the slice is the increasing list of the faces that must list this cell
        let mut pos = 0;
        let mut f = 0;
        while f < F {
            let mut k = listed_by(&v.faces[f], c);
            while k > 0 {
                assert!(pos < idx.len() && idx[pos] == f);
                pos += 1;
                k -= 1;
            }
            f += 1;
        }
        assert!(pos == idx.len());
        off += cell.face_count();
        c += 1;
    }
    assert!(off == v.cell_face_connections.len());
}

/// the neighbour iterator yields exactly the generator on the other side of each listed non-boundary,
/// non-periodic face, never the cell itself — for constructed and unconstructed cells alike
fn check_neighbours<const N: usize, const F: usize>() {
    let (v, _) = raw::<N, F>();
    let c: usize = kani::any();
    kani::assume(c < N);
    let cell = &v.voronoi_cells[c];
    let mut it = cell.neighbour_ids(&v);
    let mut f = 0;
    while f < F {
        let face = &v.faces[f];
        if listed_by(face, c) > 0 && !face.is_boundary() && !face.is_periodic() {
            let other = if face.left() == c { face.right().unwrap() } else { face.left() };
            let got = it.next();
            assert!(got == Some(other));
            assert!(got != Some(c));
        }
        f += 1;
    }
    assert!(it.next().is_none());
}

#[kani::proof]
#[kani::unwind(4)]
fn finalize_structure_2x2() {
    check_structure::<2, 2>();
}

#[kani::proof]
#[kani::unwind(4)]
fn finalize_neighbours_2x2() {
    check_neighbours::<2, 2>();
}

#[kani::proof]
#[kani::unwind(5)]
fn finalize_structure_3x3() {
    check_structure::<3, 3>();
}

#[kani::proof]
#[kani::unwind(5)]
fn finalize_neighbours_3x3() {
    check_neighbours::<3, 3>();
}

#[kani::proof]
#[kani::unwind(4)]
fn finalize_cover_2x2() {
    let (v, constructed) = raw::<2, 2>();
    kani::cover!(v.cell_face_connections.len() == 4, "both faces shared by both cells");
    kani::cover!(!constructed[1] && v.voronoi_cells[1].face_count() == 1, "an unconstructed cell lists a face");
}
