//! C08: `Dimensionality::vector_is_valid` — contract on the real function (`kani::ensures` attribute in src/voronoi.rs).
//!
//! Postcondition from the property statement ("every reported face has a unit normal inside the active
//! subspace and faces orthogonal to it are not reported"): a vector is valid iff each of its components along
//! an unused axis is exactly zero (either sign); NaN is never zero. All 2^192 bit patterns, loop-free.
use super::{any_dim, any_vec};
use crate::voronoi::Dimensionality;
use glam::DVec3;

pub(crate) fn n_active(dim: Dimensionality) -> usize {
    usize::from(dim)
}

pub(crate) fn in_active_subspace(dim: Dimensionality, v: DVec3) -> bool {
    let c = [v.x, v.y, v.z];
    let d = n_active(dim);
    (0 < d || c[0] == 0.0) && (1 < d || c[1] == 0.0) && (2 < d || c[2] == 0.0)
}

#[kani::proof_for_contract(Dimensionality::vector_is_valid)]
fn vector_is_valid_contract() {
    let d = any_dim();
    let v = any_vec();
    d.vector_is_valid(v);
}

/// vacuity guard + corner cases of the contract (negative zero is inside, NaN is outside)
#[kani::proof]
fn vector_is_valid_cover() {
    let d = any_dim();
    let v = any_vec();
    let r = d.vector_is_valid(v);
    kani::cover!(r && n_active(d) == 1 && v.y.to_bits() == (-0.0f64).to_bits(), "1D accepts -0.0 in y");
    kani::cover!(!r && n_active(d) == 2 && v.z.is_nan(), "2D rejects NaN in z");
    kani::cover!(r && n_active(d) == 3 && v.z.is_nan(), "3D accepts everything");
}
