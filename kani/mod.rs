//! Kani harnesses (E3), mounted into the real crate by
//! `#[cfg(kani)] #[path = "/verif/kani/mod.rs"] mod kani_harnesses;` in src/voronoi/verif_hooks.rs.
//! Nothing here is compiled outside `cargo kani`.
#![allow(unused_imports, dead_code)]

mod boundary;
