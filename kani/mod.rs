//! Kani harnesses (E3), mounted into the real crate by
//! `#[cfg(kani)] #[path = "/verif/kani/mod.rs"] mod kani_harnesses;` in src/voronoi/verif_hooks.rs.
//! Nothing here is compiled outside `cargo kani`.
//!
//! Files named `*_priv.rs` are mounted by one `#[cfg(kani)] #[path = ..] mod ..;` line at the end of the
//! module whose private items they need (boundary.rs, half_space.rs, generator.rs, convex_cell.rs).
#![allow(unused_imports, dead_code)]

mod boundary;
pub(crate) mod dims;
pub(crate) mod dotmodel;

use crate::voronoi::Dimensionality;
use glam::DVec3;

/// every `Dimensionality`
pub(crate) fn any_dim() -> Dimensionality {
    let k: u8 = kani::any();
    kani::assume(k < 3);
    match k {
        0 => Dimensionality::OneD,
        1 => Dimensionality::TwoD,
        _ => Dimensionality::ThreeD,
    }
}

/// every bit pattern in every component (NaN, infinities, subnormals, signed zeros included)
pub(crate) fn any_vec() -> DVec3 {
    DVec3::new(kani::any(), kani::any(), kani::any())
}

pub(crate) fn finite(v: DVec3) -> bool {
    v.x.is_finite() && v.y.is_finite() && v.z.is_finite()
}

pub(crate) fn within(v: DVec3, m: f64) -> bool {
    finite(v) && v.x.abs() <= m && v.y.abs() <= m && v.z.abs() <= m
}

pub(crate) fn same_bits(a: DVec3, b: DVec3) -> bool {
    a.x.to_bits() == b.x.to_bits() && a.y.to_bits() == b.y.to_bits() && a.z.to_bits() == b.z.to_bits()
}
