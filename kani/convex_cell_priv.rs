//! C15 / C16: private pieces of `voronoi::convex_cell` on the real code.
//! Mounted as a child module of `voronoi::convex_cell` (private `Vertex::plane_idx`, `update_safety_radius`, ..).
use super::{ConvexCell, Vertex, WithoutFaces};
use crate::voronoi::verif_hooks::kani_harnesses::any_dim;
use crate::voronoi::Dimensionality;
use glam::DVec3;

// ------------------------------------------------------------------------------------------------ C15
/// `Vertex::plane_idx`: position of the plane in the dual, first match, `None` iff absent; terminates within
/// three iterations without an out-of-bounds access. Complete: all 2^256 inputs, the loop is closed by the
/// unwinding assertion (bound 3 comes from the array length, not from a choice of ours).
#[kani::proof]
#[kani::unwind(4)]
fn plane_idx_contract() {
    let dual: [usize; 3] = kani::any();
    let q: usize = kani::any();
    let v = Vertex { loc: DVec3::ZERO, dual, radius2: 0.0 };
    match v.plane_idx(q) {
        Some(k) => {
            assert!(k < 3 && dual[k] == q);
            assert!(k == 0 || dual[0] != q);
            assert!(k <= 1 || dual[1] != q);
        }
        None => assert!(dual[0] != q && dual[1] != q && dual[2] != q),
    }
}

/// "requesting faces for 1D/2D cells is rejected instead of returning nonsense": `with_faces` panics for a 1D and
/// for a 2D cell (one harness per dimensionality: each has a single path, and passes only if that path panics).
fn with_faces_on(dim: Dimensionality) {
    let cell = ConvexCell::<WithoutFaces>::new(DVec3::ZERO, 0, vec![], vec![], dim);
    let _ = cell.with_faces();
}

#[kani::proof]
#[kani::should_panic]
#[kani::unwind(2)]
fn with_faces_rejects_one_d() {
    with_faces_on(Dimensionality::OneD);
}

#[kani::proof]
#[kani::should_panic]
#[kani::unwind(2)]
fn with_faces_rejects_two_d() {
    with_faces_on(Dimensionality::TwoD);
}

/// ... and does not reject 3D (an empty 3D cell goes through without panic): keeps the previous harness honest
#[kani::proof]
#[kani::unwind(2)]
fn with_faces_accepts_three_d() {
    let cell = ConvexCell::<WithoutFaces>::new(DVec3::ZERO, 0, vec![], vec![], Dimensionality::ThreeD);
    let c = cell.with_faces();
    assert!(c.face_count() == 0);
}

// ------------------------------------------------------------------------------------------------ C16
fn cell_with_radii<const K: usize>(r2: [f64; K]) -> ConvexCell<WithoutFaces> {
    let mut vertices = Vec::with_capacity(K);
    let mut i = 0;
    while i < K {
        vertices.push(Vertex { loc: DVec3::ZERO, dual: [0, 1, 2], radius2: r2[i] });
        i += 1;
    }
    ConvexCell::<WithoutFaces>::new(DVec3::ZERO, 0, vec![], vertices, Dimensionality::ThreeD)
}

/// Model of the `sqrt` intrinsic for the harness below (assumption A-SQRT, listed in the evidence): an arbitrary
/// function of its argument that is non-negative and finite on finite non-negative input and monotone (IEEE-754
/// correctly rounded sqrt has both properties). A memo table makes it a function and enforces monotonicity
/// between all values asked for.
mod sqrtmodel {
    pub(super) const SLOTS: usize = 6;
    pub(super) static mut USED: usize = 0;
    pub(super) static mut ARG: [f64; SLOTS] = [0.0; SLOTS];
    pub(super) static mut RES: [f64; SLOTS] = [0.0; SLOTS];

    pub(super) fn reset() {
        unsafe {
            USED = 0;
        }
    }

    pub(super) fn sqrt_model(x: f64) -> f64 {
        unsafe {
            let mut i = 0;
            while i < SLOTS {
                if i < USED && ARG[i].to_bits() == x.to_bits() {
                    return RES[i];
                }
                i += 1;
            }
            let r: f64 = kani::any();
            kani::assume(!(x.is_finite() && x >= 0.0) || (r.is_finite() && r >= 0.0));
            i = 0;
            while i < SLOTS {
                if i < USED {
                    kani::assume(!(ARG[i] <= x) || RES[i] <= r);
                    kani::assume(!(x <= ARG[i]) || r <= RES[i]);
                }
                i += 1;
            }
            assert!(USED < SLOTS, "sqrt model: memo table large enough");
            ARG[USED] = x;
            RES[USED] = r;
            USED += 1;
            r
        }
    }
}

/// BOUNDED stand-in (K vertices): after `update_safety_radius` the safety radius is twice the square root of the
/// largest squared vertex distance, hence at least twice every vertex distance.
fn check_safety_radius<const K: usize>() {
    sqrtmodel::reset();
    let r2: [f64; K] = kani::any();
    let mut i = 0;
    while i < K {
        kani::assume(r2[i].is_finite() && r2[i] >= 0.0);
        i += 1;
    }
    let mut cell = cell_with_radii(r2);
    cell.update_safety_radius();
    let s = cell.safety_radius;
    let mut max = r2[0];
    i = 1;
    while i < K {
        if r2[i] > max {
            max = r2[i];
        }
        i += 1;
    }
    assert!(s >= 0.0 && !s.is_nan());
    assert!(s == 2.0 * max.sqrt());
    i = 0;
    while i < K {
        assert!(s >= 2.0 * r2[i].sqrt());
        i += 1;
    }
}

#[kani::proof]
#[kani::unwind(8)]
#[kani::stub(f64::sqrt, sqrtmodel::sqrt_model)]
fn safety_radius_is_twice_max_vertex_distance_k3() {
    check_safety_radius::<3>();
}

#[kani::proof]
#[kani::unwind(8)]
#[kani::stub(f64::sqrt, sqrtmodel::sqrt_model)]
fn safety_radius_is_twice_max_vertex_distance_k4() {
    check_safety_radius::<4>();
}
